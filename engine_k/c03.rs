//! C03 (explicit transitions): offset / dst / abbreviation for an instant = the local time type
//! of the latest transition at or before the instant (exact instants, not whole seconds).
use super::*;
use super::tables::*;
use crate::tz::Dst;

pub(crate) fn lookup<S: Src, const N: usize, const M: usize>(s: &mut S, with_footer: bool) {
    let tb = arbitrary::<S, N, M>(s, with_footer);
    let (t, floor, _frac) = instant(s);
    // reference: latest i with T_i <= instant  <=>  T_i <= floor second
    let mut idx = 0usize;
    let mut i = 1;
    while i < N {
        if tb.ts[i] <= floor { idx = i; }
        i += 1;
    }
    let off = tb.tz.to_offset(t);
    let info = tb.tz.to_offset_info(t);
    if with_footer && idx == N - 1 {
        // at or after the last transition the POSIX footer rules
        s.check(off.seconds() == FOOTER_OFFSET, "footer offset after last transition");
        s.check(info.offset().seconds() == FOOTER_OFFSET, "footer info after last transition");
        s.check(info.abbreviation() == "FTR", "footer abbreviation");
        s.reach("footer");
    } else {
        let k = tb.ty[idx];
        s.check(off.seconds() == tb.off[k], "to_offset == type of latest transition <= instant");
        s.check(info.offset().seconds() == tb.off[k], "to_offset_info.offset");
        s.check((info.dst() == Dst::Yes) == tb.dst[k], "to_offset_info.dst");
        s.check(abbrev_ok(info.abbreviation(), tb.des[k]), "to_offset_info.abbreviation");
        s.reach("table");
    }
}

#[cfg(kani)]
mod proofs {
    use super::*;
    #[kani::proof] #[kani::unwind(6)]
    fn c03_lookup_n4() { lookup::<KaniSrc, 4, 3>(&mut KaniSrc::new(), false) }
    #[kani::proof] #[kani::unwind(6)]
    fn c03_lookup_footer_n4() { lookup::<KaniSrc, 4, 3>(&mut KaniSrc::new(), true) }
    #[kani::proof] #[kani::unwind(10)]
    fn c03_lookup_n8() { lookup::<KaniSrc, 8, 4>(&mut KaniSrc::new(), false) }
    // vacuity witnesses: the final assert(false) must be reported as FAILURE
    #[kani::proof] #[kani::unwind(6)]
    fn c03_lookup_n4_witness() { lookup::<KaniSrc, 4, 3>(&mut KaniSrc::new(), false); assert!(false); }
    #[kani::proof] #[kani::unwind(6)]
    fn c03_lookup_footer_n4_witness() { lookup::<KaniSrc, 4, 3>(&mut KaniSrc::new(), true); assert!(false); }
}
