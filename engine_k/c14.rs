//! C14 (explicit transitions): next/previous transition = the nearest recorded transition
//! strictly after / before the (exact) instant, reporting the type in force from it.
use super::*;
use super::tables::*;
use crate::tz::Dst;

pub(crate) fn next<S: Src, const N: usize, const M: usize>(s: &mut S, with_footer: bool) {
    let tb = arbitrary::<S, N, M>(s, with_footer);
    let (t, floor, _frac) = instant(s);
    // smallest i >= 1 with T_i > instant  <=>  T_i > floor second  (T_i integral)
    let mut idx = 0usize;
    let mut i = N - 1;
    while i >= 1 {
        if tb.ts[i] > floor { idx = i; }
        i -= 1;
    }
    let got = tb.tz.next_transition(t);
    if with_footer && (idx == 0 || idx == N - 1) {
        // hand-over: a fixed-offset footer has no transitions; the last recorded row belongs to the footer
        s.check(got.is_none(), "footer (no rule) yields no further transition");
        s.reach("footer");
        return;
    }
    if idx == 0 {
        s.check(got.is_none(), "no transition after the last one");
        s.reach("none");
    } else {
        s.check(got.is_some(), "a later transition exists");
        if let Some(tr) = got {
            let k = tb.ty[idx];
            s.check(tr.timestamp().as_second() == tb.ts[idx] && tr.timestamp().subsec_nanosecond() == 0, "next = smallest T_i > t");
            s.check(tr.offset().seconds() == tb.off[k], "next.offset");
            s.check((tr.dst() == Dst::Yes) == tb.dst[k], "next.dst");
            s.check(abbrev_ok(tr.abbreviation(), tb.des[k]), "next.abbreviation");
        }
        s.reach("some");
    }
}

pub(crate) fn prev<S: Src, const N: usize, const M: usize>(s: &mut S, with_footer: bool) {
    let tb = arbitrary::<S, N, M>(s, with_footer);
    let (t, floor, frac) = instant(s);
    // largest i >= 1 with T_i < instant  <=>  T_i <= floor if fractional, T_i < floor otherwise... precisely:
    // instant = floor + f, 0 <= f < 1;  T_i < instant  <=>  T_i < floor  or (T_i == floor and f > 0)
    let mut idx = 0usize;
    let mut i = 1;
    while i < N {
        if tb.ts[i] < floor || (tb.ts[i] == floor && frac) { idx = i; }
        i += 1;
    }
    let got = tb.tz.previous_transition(t);
    if idx == 0 {
        s.check(got.is_none(), "no transition before the first real one");
        s.reach("none");
    } else {
        s.check(got.is_some(), "an earlier transition exists");
        if let Some(tr) = got {
            let k = tb.ty[idx];
            s.check(tr.timestamp().as_second() == tb.ts[idx] && tr.timestamp().subsec_nanosecond() == 0, "previous = largest T_i < t");
            s.check(tr.offset().seconds() == tb.off[k], "previous.offset");
            s.check((tr.dst() == Dst::Yes) == tb.dst[k], "previous.dst");
            s.check(abbrev_ok(tr.abbreviation(), tb.des[k]), "previous.abbreviation");
        }
        s.reach("some");
    }
}

#[cfg(kani)]
mod proofs {
    use super::*;
    #[kani::proof] #[kani::unwind(6)]
    fn c14_next_n4() { next::<KaniSrc, 4, 3>(&mut KaniSrc::new(), false) }
    #[kani::proof] #[kani::unwind(6)]
    fn c14_prev_n4() { prev::<KaniSrc, 4, 3>(&mut KaniSrc::new(), false) }
    #[kani::proof] #[kani::unwind(6)]
    fn c14_next_footer_n4() { next::<KaniSrc, 4, 3>(&mut KaniSrc::new(), true) }
    #[kani::proof] #[kani::unwind(6)]
    fn c14_prev_footer_n4() { prev::<KaniSrc, 4, 3>(&mut KaniSrc::new(), true) }
    #[kani::proof] #[kani::unwind(10)]
    fn c14_next_n8() { next::<KaniSrc, 8, 4>(&mut KaniSrc::new(), false) }
    #[kani::proof] #[kani::unwind(10)]
    fn c14_prev_n8() { prev::<KaniSrc, 8, 4>(&mut KaniSrc::new(), false) }
    #[kani::proof] #[kani::unwind(6)]
    fn c14_next_n4_witness() { next::<KaniSrc, 4, 3>(&mut KaniSrc::new(), false); assert!(false); }
    #[kani::proof] #[kani::unwind(6)]
    fn c14_prev_n4_witness() { prev::<KaniSrc, 4, 3>(&mut KaniSrc::new(), false); assert!(false); }
}
