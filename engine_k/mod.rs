//! Engine K support (injected into the scratch copy as `src/verif_k/mod.rs`,
//! compiled only under cfg(kani) or cfg(verif_replay)).
//!
//! Every harness body is written once against the `Src` trait and runs in two
//! modes: under Kani (`KaniSrc`: inputs are `kani::any()`, `assume`/`check`
//! are `kani::assume`/`assert!`) and natively (`ReplaySrc`: inputs come from a
//! counterexample extracted from CBMC's trace, `check` records the failure).
#![allow(dead_code, unused_imports, missing_docs, clippy::all)]

use alloc::{boxed::Box, string::String, vec::Vec};

pub(crate) trait Src {
    fn i128(&mut self, lo: i128, hi: i128) -> i128;
    fn assume(&mut self, c: bool) -> bool;
    fn check(&mut self, c: bool, label: &'static str);
    fn reach(&mut self, label: &'static str);
    fn i64(&mut self) -> i64 { self.i128(i64::MIN as i128, i64::MAX as i128) as i64 }
    fn i32(&mut self) -> i32 { self.i128(i32::MIN as i128, i32::MAX as i128) as i32 }
    fn i16(&mut self) -> i16 { self.i128(i16::MIN as i128, i16::MAX as i128) as i16 }
    fn i8(&mut self) -> i8 { self.i128(i8::MIN as i128, i8::MAX as i128) as i8 }
    fn u8(&mut self) -> u8 { self.i128(0, 255) as u8 }
    fn usize(&mut self, hi: usize) -> usize { self.i128(0, hi as i128) as usize }
    fn bool(&mut self) -> bool { self.i128(0, 1) != 0 }
    fn range(&mut self, lo: i64, hi: i64) -> i64 { self.i128(lo as i128, hi as i128) as i64 }
}

/// Marker function: its arguments show up in CBMC's trace, which is how the
/// driver extracts the counterexample inputs (in order of generation).
#[inline(never)]
#[no_mangle]
pub extern "C" fn verif_k_record(idx: u32, lo64: u64, hi64: u64) -> u32 {
    idx.wrapping_add((lo64 ^ hi64) as u32)
}

#[cfg(kani)]
pub(crate) struct KaniSrc { n: u32, sink: u32 }
#[cfg(kani)]
impl KaniSrc { pub(crate) fn new() -> KaniSrc { KaniSrc { n: 0, sink: 0 } } }
#[cfg(kani)]
impl Src for KaniSrc {
    fn i128(&mut self, lo: i128, hi: i128) -> i128 {
        // draw at the narrowest width that fits, so the SAT encoding stays small
        let v: i128 = if lo >= i8::MIN as i128 && hi <= i8::MAX as i128 {
            let x: i8 = kani::any(); x as i128
        } else if lo >= 0 && hi <= u8::MAX as i128 {
            let x: u8 = kani::any(); x as i128
        } else if lo >= i16::MIN as i128 && hi <= i16::MAX as i128 {
            let x: i16 = kani::any(); x as i128
        } else if lo >= i32::MIN as i128 && hi <= i32::MAX as i128 {
            let x: i32 = kani::any(); x as i128
        } else {
            let x: i64 = kani::any(); x as i128
        };
        kani::assume(lo <= v && v <= hi);
        self.sink = self.sink.wrapping_add(verif_k_record(self.n, v as u64, (v >> 64) as u64));
        self.n += 1;
        v
    }
    fn assume(&mut self, c: bool) -> bool { kani::assume(c); true }
    fn check(&mut self, c: bool, _label: &'static str) { assert!(c); }
    fn reach(&mut self, _label: &'static str) {}
}

pub(crate) struct ReplaySrc {
    pub vals: Vec<i128>,
    pub pos: usize,
    pub failed: Vec<&'static str>,
    pub assume_failed: bool,
    pub reached: Vec<&'static str>,
}
impl Src for ReplaySrc {
    fn i128(&mut self, lo: i128, hi: i128) -> i128 {
        let v = self.vals.get(self.pos).copied().unwrap_or(0);
        self.pos += 1;
        if !(lo <= v && v <= hi) { self.assume_failed = true; }
        v
    }
    fn assume(&mut self, c: bool) -> bool { if !c { self.assume_failed = true; } c }
    fn check(&mut self, c: bool, label: &'static str) { if !c && !self.assume_failed { self.failed.push(label); } }
    fn reach(&mut self, label: &'static str) { self.reached.push(label); }
}

/// Never format a jiff::Error on the panic path (CBMC would unroll core::fmt).
pub(crate) trait Okk<T> { fn okk(self) -> T; }
impl<T> Okk<T> for Result<T, crate::Error> {
    fn okk(self) -> T {
        match self {
            Ok(v) => v,
            Err(e) => { core::mem::forget(e); panic!("unexpected Err") }
        }
    }
}
pub(crate) fn is_err_forget<T>(r: Result<T, crate::Error>) -> Option<T> {
    match r { Ok(v) => Some(v), Err(e) => { core::mem::forget(e); None } }
}

pub(crate) fn empty_format(_: core::fmt::Arguments<'_>) -> String { String::new() }

pub(crate) mod tables;
pub(crate) mod c03;
pub(crate) mod c14;
pub(crate) mod c17;

/// Native replay entry: VERIF_K_REPLAY="harness:v0,v1,..." ; prints the verdict.
#[cfg(all(test, verif_replay))]
mod replay {
    use super::*;
    #[test]
    fn verif_k_replay() {
        extern crate std;
        let spec = std::env::var("VERIF_K_REPLAY").unwrap();
        let (name, vals) = spec.split_once(':').unwrap();
        let vals: Vec<i128> = vals.split(',').filter(|x| !x.is_empty()).map(|x| x.parse().unwrap()).collect();
        let mut s = ReplaySrc { vals, pos: 0, failed: Vec::new(), assume_failed: false, reached: Vec::new() };
        let r = std::panic::catch_unwind(std::panic::AssertUnwindSafe(|| { super::dispatch(name, &mut s); }));
        match r {
            Err(_) => std::println!("VERIF_K_RESULT panic assume_failed={}", s.assume_failed),
            Ok(()) => std::println!("VERIF_K_RESULT failed={:?} assume_failed={} consumed={}", s.failed, s.assume_failed, s.pos),
        }
    }
}

pub(crate) fn dispatch<S: Src>(name: &str, s: &mut S) {
    match name {
        "c03_lookup_n4" => c03::lookup::<S, 4, 3>(s, false),
        "c03_lookup_n8" => c03::lookup::<S, 8, 4>(s, false),
        "c03_lookup_footer_n4" => c03::lookup::<S, 4, 3>(s, true),
        "c14_next_n4" => c14::next::<S, 4, 3>(s, false),
        "c14_prev_n4" => c14::prev::<S, 4, 3>(s, false),
        "c14_next_n8" => c14::next::<S, 8, 4>(s, false),
        "c14_prev_n8" => c14::prev::<S, 8, 4>(s, false),
        "c14_next_footer_n4" => c14::next::<S, 4, 3>(s, true),
        "c14_prev_footer_n4" => c14::prev::<S, 4, 3>(s, true),
        "c17_posix_parse_6" => c17::posix_parse::<S, 6>(s),
        "c17_posix_parse_4" => c17::posix_parse::<S, 4>(s),
        "c17_posix_parse_seeded_2" => c17::posix_parse_seeded::<S, 2>(s),
        "c17_posix_parse_9" => c17::posix_parse::<S, 9>(s),
        "c17_parse_i64_20" => c17::parse_i64::<S, 20>(s),
        "c17_parse_i64_6" => c17::parse_i64::<S, 6>(s),
        _ => panic!("unknown harness"),
    }
}
