from kdriver import H
HARNESSES = [
    H("c17_posix_parse_4", 7, timeout=1500, note="POSIX TZ parser (shared::posix) on every byte string of length <= 4 (all 256 byte values, length symbolic incl. 0): returns Ok/Err without panic, overflow or out-of-bounds access; Ok values within the documented ranges. alloc::fmt::format stubbed (error messages are not the subject)"),
    H("c17_posix_parse_4_witness", 7, expect="witness", timeout=1500),
    H("c17_posix_parse_seeded_2", 20, timeout=14000, tier="deep", mem_gb=24, note="grammar-aware: one of 4 valid POSIX TZ strings (15 bytes each, covering unquoted/quoted abbreviations, explicit DST offsets, J/n/M rule dates, times beyond 24h), truncated at every position, followed by up to 2 arbitrary bytes"),
    H("c17_posix_parse_seeded_2_witness", 20, expect="witness", timeout=14000, tier="deep", mem_gb=24),
    H("c17_parse_i64_6", 8, timeout=600, note="util::parse::i64 on every byte string of length <= 6: Ok iff all ASCII digits (value = decimal value), Err otherwise"),
    H("c17_posix_parse_6", 8, tier="deep", timeout=6000, mem_gb=20),
    H("c17_posix_parse_9", 11, tier="deep", timeout=12000, mem_gb=24),
    H("c17_parse_i64_20", 22, tier="deep", timeout=6000, mem_gb=20),
]
ASSUMPTIONS = [
    "inputs longer than the stated byte bound are outside the claim (this includes every valid RFC 2822 string and most valid datetimes)",
    "alloc::fmt::format is stubbed to return an empty String (Kani -Z stubbing): the content of error messages is not checked",
    "only the POSIX TZ parser and the integer helper are covered; the Temporal/friendly/strptime/RFC 2822/RFC 9557/TZif parsers did not fit CBMC within the time available and are not claimed",
]
