from kdriver import H
HARNESSES = [
    H("c03_lookup_n4", 6, note="arbitrary table: 4 transitions (row 0 = dummy), 3 local time types, no footer; all instants (second and nanosecond of either sign)"),
    H("c03_lookup_n4_witness", 6, expect="witness"),
    H("c03_lookup_n8", 10, tier="deep", timeout=3000, note="8 transitions, 4 types"),
]
ASSUMPTIONS = [
    "tables satisfy the parser's representation invariant (row 0 at Timestamp::MIN, strictly increasing instants, type indices in range)",
    "tables larger than the stated N are outside the claim",
]
