from kdriver import H
HARNESSES = [
    H("c14_next_n4", 6, note="arbitrary 4-row table, no footer: next_transition(t) = smallest recorded T_i > t (exact instants), None iff none"),
    H("c14_prev_n4", 6, note="previous_transition(t) = largest recorded T_i < t, None iff none (dummy row skipped)"),
    H("c14_next_n4_witness", 6, expect="witness"),
    H("c14_prev_n4_witness", 6, expect="witness"),
    H("c14_next_n8", 10, tier="deep", timeout=3000),
    H("c14_prev_n8", 10, tier="deep", timeout=3000),
]
ASSUMPTIONS = [
    "tables satisfy the parser's representation invariant (row 0 at Timestamp::MIN, strictly increasing instants, type indices in range)",
    "iteration = repeated application of the verified one-step functions (the iterator adapters in tz/timezone.rs are thin loops, read not encoded)",
]
