//! Arbitrary small TZif tables (representation invariant of `shared::tzif` parse output).
use super::*;
use crate::shared::{self, TzifDateTime, TzifFixed, TzifIndicator, TzifLocalTimeType, TzifTransitionInfo, TzifTransitionKind, TzifTransitions};
use crate::tz::tzif::TzifStatic;

pub(crate) const TS_MIN: i64 = -377705023201;
pub(crate) const TS_MAX: i64 = 253402207200;
pub(crate) const DESIG: &str = "AAABBBCCCDDD";

pub(crate) struct Table<const N: usize, const M: usize> {
    pub tz: TzifStatic,
    pub ts: [i64; N],
    pub ty: [usize; N],
    pub off: [i32; M],
    pub dst: [bool; M],
    pub des: [usize; M],
}

/// A fixed-offset POSIX footer `XXX<-off>` (no DST rule): evaluating it is a constant.
pub(crate) const FOOTER_OFFSET: i32 = 12345;
pub(crate) fn footer() -> shared::PosixTimeZone<&'static str> {
    shared::PosixTimeZone { std_abbrev: "FTR", std_offset: shared::PosixOffset { second: FOOTER_OFFSET }, dst: None }
}

/// N transitions (row 0 is the dummy at Timestamp::MIN as the parser guarantees), strictly
/// increasing instants, M local time types with arbitrary offsets/dst flags, designation k -> "KKK".
pub(crate) fn arbitrary<S: Src, const N: usize, const M: usize>(s: &mut S, with_footer: bool) -> Table<N, M> {
    let mut ts = [0i64; N];
    let mut ty = [0usize; N];
    let mut off = [0i32; M];
    let mut dst = [false; M];
    let mut des = [0usize; M];
    let mut types: Vec<TzifLocalTimeType> = Vec::with_capacity(M);
    let mut j = 0;
    while j < M {
        off[j] = s.range(-93599, 93599) as i32;
        dst[j] = s.bool();
        des[j] = s.usize(3);
        types.push(TzifLocalTimeType {
            offset: off[j],
            is_dst: dst[j],
            designation: ((3 * des[j]) as u8, (3 * des[j] + 3) as u8),
            indicator: TzifIndicator::LocalWall,
        });
        j += 1;
    }
    let mut timestamps: Vec<i64> = Vec::with_capacity(N);
    let mut infos: Vec<TzifTransitionInfo> = Vec::with_capacity(N);
    let mut starts: Vec<TzifDateTime> = Vec::with_capacity(N);
    let mut i = 0;
    while i < N {
        if i == 0 {
            ts[0] = TS_MIN;
        } else {
            ts[i] = s.range(TS_MIN + 1, TS_MAX);
            s.assume(ts[i] > ts[i - 1]);
        }
        ty[i] = s.usize(M - 1);
        timestamps.push(ts[i]);
        infos.push(TzifTransitionInfo { type_index: ty[i] as u8, kind: TzifTransitionKind::Unambiguous });
        starts.push(TzifDateTime::ZERO);
        i += 1;
    }
    let ends = starts.clone();
    let sh = shared::TzifStatic {
        fixed: TzifFixed {
            name: Some("X"),
            version: b'2',
            checksum: 0,
            designations: DESIG,
            posix_tz: if with_footer { Some(footer()) } else { None },
        },
        types: Box::leak(types.into_boxed_slice()),
        transitions: TzifTransitions {
            timestamps: Box::leak(timestamps.into_boxed_slice()),
            civil_starts: Box::leak(starts.into_boxed_slice()),
            civil_ends: Box::leak(ends.into_boxed_slice()),
            infos: Box::leak(infos.into_boxed_slice()),
        },
    };
    Table { tz: TzifStatic::from_shared_const(sh), ts, ty, off, dst, des }
}

/// An arbitrary in-range instant with the sign convention Timestamp::new accepts; returns the
/// timestamp together with its *floor* second (the exact instant lies in [fs, fs+1)).
pub(crate) fn instant<S: Src>(s: &mut S) -> (crate::Timestamp, i64, bool) {
    let sec = s.range(TS_MIN, TS_MAX);
    let ns = s.range(-999_999_999, 999_999_999) as i32;
    // same-sign convention keeps the reference trivial: value = sec + ns/1e9
    s.assume(!(sec > 0 && ns < 0) && !(sec < 0 && ns > 0));
    s.assume(!(sec == TS_MIN && ns < 0));
    let t = crate::Timestamp::new(sec, ns).okk();
    let floor = if ns < 0 { sec - 1 } else { sec };
    (t, floor, ns != 0)
}

pub(crate) fn abbrev_ok(got: &str, k: usize) -> bool {
    let b = got.as_bytes();
    let want = DESIG.as_bytes();
    b.len() == 3 && b[0] == want[3 * k] && b[1] == want[3 * k + 1] && b[2] == want[3 * k + 2]
}
