//! C17 (short inputs): parsers are total on arbitrary bytes; Ok values are sane.
use super::*;

pub(crate) fn posix_parse<S: Src, const N: usize>(s: &mut S) {
    let len = s.usize(N);
    let mut buf = [0u8; N];
    let mut i = 0;
    while i < N {
        buf[i] = s.u8();
        i += 1;
    }
    match crate::shared::PosixTimeZone::parse(&buf[..len]) {
        Ok(tz) => {
            s.check(-89_999 <= tz.std_offset.second && tz.std_offset.second <= 89_999, "std offset within the POSIX range");
            if let Some(ref dst) = tz.dst {
                s.check(-89_999 <= dst.offset.second && dst.offset.second <= 89_999, "dst offset within the POSIX range");
                s.check(-604_799 <= dst.rule.start.time.second && dst.rule.start.time.second <= 604_799, "rule time within range");
            }
            s.reach("ok");
            core::mem::forget(tz);
        }
        Err(e) => {
            core::mem::forget(e);
            s.reach("err");
        }
    }
}

/// Grammar-aware variant: a valid POSIX TZ string from a small corpus, truncated at an arbitrary
/// position, followed by up to `K` arbitrary bytes. Reaches the deeper parser states (DST offset,
/// rule dates and times) that `posix_parse` cannot reach within its byte bound.
pub(crate) const CORPUS: [&[u8]; 4] = [b"EST5EDT4,M3.2.0", b"AAA0BBB1,J1,300", b"<-03>3<-02>,M3.", b"ABC-1DEF,59/25,"];

pub(crate) fn posix_parse_seeded<S: Src, const K: usize>(s: &mut S) {
    let which = s.usize(CORPUS.len() - 1);
    let base = CORPUS[which];
    let cut = s.usize(15);
    s.assume(cut <= base.len());
    let extra = s.usize(K);
    let mut buf = [0u8; 18];
    let mut i = 0;
    while i < 15 {
        if i < cut { buf[i] = base[i]; }
        i += 1;
    }
    let mut j = 0;
    while j < K {
        let b = s.u8();
        if j < extra { buf[cut + j] = b; }
        j += 1;
    }
    let len = cut + extra;
    match crate::shared::PosixTimeZone::parse(&buf[..len]) {
        Ok(tz) => {
            s.check(-89_999 <= tz.std_offset.second && tz.std_offset.second <= 89_999, "std offset within the POSIX range");
            s.reach("ok");
            core::mem::forget(tz);
        }
        Err(e) => {
            core::mem::forget(e);
            s.reach("err");
        }
    }
}

pub(crate) fn parse_i64<S: Src, const N: usize>(s: &mut S) {
    let len = s.usize(N);
    let mut buf = [0u8; N];
    let mut i = 0;
    while i < N {
        buf[i] = s.u8();
        i += 1;
    }
    // reference: all bytes ASCII digits, value = decimal value, Err on empty / non-digit / overflow
    let mut all_digits = len > 0;
    let mut val: i128 = 0;
    let mut j = 0;
    while j < N {
        if j < len {
            if buf[j] < b'0' || buf[j] > b'9' { all_digits = false; }
            val = val * 10 + (buf[j].wrapping_sub(b'0') as i128);
        }
        j += 1;
    }
    match crate::util::parse::i64(&buf[..len]) {
        Ok(v) => {
            s.check(all_digits && (v as i128) == val, "parse::i64 Ok only for digit strings, with the decimal value");
            s.reach("ok");
        }
        Err(e) => {
            s.check(!all_digits || val > i64::MAX as i128, "parse::i64 Err only for empty / non-digit / overflowing input");
            core::mem::forget(e);
            s.reach("err");
        }
    }
}

#[cfg(kani)]
mod proofs {
    use super::*;
    #[kani::proof] #[kani::unwind(8)] #[kani::stub(alloc::fmt::format, empty_format)]
    fn c17_posix_parse_6() { posix_parse::<KaniSrc, 6>(&mut KaniSrc::new()) }
    #[kani::proof] #[kani::unwind(7)] #[kani::stub(alloc::fmt::format, empty_format)]
    fn c17_posix_parse_4() { posix_parse::<KaniSrc, 4>(&mut KaniSrc::new()) }
    #[kani::proof] #[kani::unwind(7)] #[kani::stub(alloc::fmt::format, empty_format)]
    fn c17_posix_parse_4_witness() { posix_parse::<KaniSrc, 4>(&mut KaniSrc::new()); assert!(false); }
    #[kani::proof] #[kani::unwind(11)] #[kani::stub(alloc::fmt::format, empty_format)]
    fn c17_posix_parse_9() { posix_parse::<KaniSrc, 9>(&mut KaniSrc::new()) }
    #[kani::proof] #[kani::unwind(20)] #[kani::stub(alloc::fmt::format, empty_format)]
    fn c17_posix_parse_seeded_2() { posix_parse_seeded::<KaniSrc, 2>(&mut KaniSrc::new()) }
    #[kani::proof] #[kani::unwind(20)] #[kani::stub(alloc::fmt::format, empty_format)]
    fn c17_posix_parse_seeded_2_witness() { posix_parse_seeded::<KaniSrc, 2>(&mut KaniSrc::new()); assert!(false); }
    #[kani::proof] #[kani::unwind(22)] #[kani::stub(alloc::fmt::format, empty_format)]
    fn c17_parse_i64_20() { parse_i64::<KaniSrc, 20>(&mut KaniSrc::new()) }
    #[kani::proof] #[kani::unwind(8)] #[kani::stub(alloc::fmt::format, empty_format)]
    fn c17_parse_i64_6() { parse_i64::<KaniSrc, 6>(&mut KaniSrc::new()) }
}
