"""C05 — fallible operations return errors: no panics, no out-of-range results.

No kernels of its own: C05 is the union of the *no-panic* obligations and the
*Ok-value-in-range / Err-exactly-when* claims of the fallible public-API kernels that the
other properties already define (release-build semantics; every integer argument ranges over
its whole primitive type unless the kernel's precondition says otherwise). The clause "the two
build modes return identical results" is not decided (the debug-assertions variant of the
ranged integers is not encoded)."""
import copy, importlib.util, os
from speclib import *

_here = os.path.dirname(os.path.abspath(__file__))


def _load(pid):
    s = importlib.util.spec_from_file_location("spec_" + pid, os.path.join(_here, pid + ".py"))
    m = importlib.util.module_from_spec(s)
    s.loader.exec_module(m)
    return m


QUICK = {
    "C01": ["k_date_new", "k_iso_new", "k_date_nth_weekday_of_month", "k_date_tomorrow", "k_date_yesterday", "k_itry_new", "k_epoch_checked_add", "k_ifrom_doy", "k_ifrom_doy_no_leap", "k_inth_weekday_of_month"],
    "C02": ["k_ts_new", "k_ts_from_second", "k_ts_from_millisecond", "k_ts_from_microsecond", "k_ts_from_nanosecond", "k_off_to_timestamp", "k_idt_to_ts_checked"],
    "C08": ["k_time_checked_add_span", "k_time_checked_add_sdur", "k_time_saturating_add_span"],
    "C10": ["k_ts_round", "k_sd_round", "k_time_round", "k_offset_round", "k_time_round_inc"],
    "C12": None,   # all of them
}
MODULES = []
KERNELS = []
for pid, names in QUICK.items():
    m = _load(pid)
    for mod in m.MODULES:
        if mod not in MODULES:
            MODULES.append(mod)
    for k in m.KERNELS:
        short = k.name.split("::")[-1]
        k2 = copy.copy(k)
        if k.probe_only:
            continue
        if k.tier == "quick" and (names is None or short in names):
            k2.tier = "quick"
        else:
            k2.tier = "deep"
        KERNELS.append(k2)
