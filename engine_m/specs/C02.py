"""C02 — instant <-> civil datetime under a fixed offset is exact and invertible; unit views agree.

Exact instants are integer nanosecond counts: T(s, ns) = s*10^9 + ns. `epoch` is jiff's own
date -> epoch-day function, whose meaning is fixed by C01.
"""
from speclib import *

MODULES = ["c02"]
DAY_NS = 86400 * NS
TS_MIN_NS = TS_MIN_S * NS
TS_MAX_NS = TS_MAX_S * NS + 999999999


def ts_norm(s, ns):
    """(s, ns) is in jiff's normal form: |ns| < 1e9 and never of opposite sign to s"""
    return And(ns > -NS, ns < NS, Not(And(s > 0, ns < 0)), Not(And(s < 0, ns > 0)))


def ts_in_range(s, ns):
    t = s * NS + ns
    return And(t >= TS_MIN_NS, t <= TS_MAX_NS)


def valid_ts(s, ns):
    return And(in_range(s, TS_MIN_S, TS_MAX_S), ts_norm(s, ns), ts_in_range(s, ns))


def off_ok(o):
    return in_range(o, -OFF_MAX, OFF_MAX)


def dt_total(epoch, t4):
    return epoch * DAY_NS + nanos_of_day(*t4)


def decomposition(a, o):
    """o = (D3, T4, epoch(D3)); the civil datetime denotes exactly T + off"""
    d, t, e = o[0].ints(), o[1].ints(), o[2].i
    return And(ref_valid_date(*d), ref_valid_time(*t),
               dt_total(e, t) == a[0] * NS + a[1] + a[2] * NS)


def valid_dt(a):
    return And(ref_valid_date(a[0], a[1], a[2]), ref_valid_time(a[3], a[4], a[5], a[6]))


def back_exact(a, ts, epoch):
    """ts = (s, ns) terms; exact inverse in normal form"""
    s, ns = ts
    return And(s * NS + ns == dt_total(epoch, (a[3], a[4], a[5], a[6])) - a[7] * NS, ts_norm(s, ns))


def opt_ts(o, cond, want_total):
    """Option<(TS, i128)>: Some iff cond; value denotes want_total in normal form, as_nanosecond agrees"""
    if not o.has_variant("Some"):
        return Not(cond)
    (s, ns), n = o.some[0].ints(), o.some[1].i
    return If(cond, And(o.is_some, s * NS + ns == want_total, n == want_total, ts_norm(s, ns)), o.is_none)


def trunc_div(a, d):
    return If(a >= 0, a / d, -((-a) / d))


def trunc_rem(a, d):
    return a - trunc_div(a, d) * d


def views(a, o):
    s, ms, us, n, sms, sus, sns, sg, z = o.some.ints()
    T = a[0] * NS + a[1]
    return And(n == T, s == trunc_div(T, NS), ms == trunc_div(T, 1000000), us == trunc_div(T, 1000),
               sns == trunc_rem(T, NS), sus == trunc_div(trunc_rem(T, NS), 1000), sms == trunc_div(trunc_rem(T, NS), 1000000),
               sg == If(T > 0, 1, If(T < 0, -1, 0)), z == (T == 0))


B_TS = {0: (TS_MIN_S, TS_MAX_S), 1: (-999999999, 999999999), 2: (-OFF_MAX, OFF_MAX)}
B_DT = {0: (-9999, 9999), 1: (1, 12), 2: (1, 31), 3: (0, 23), 4: (0, 59), 5: (0, 59), 6: (0, 999999999), 7: (-OFF_MAX, OFF_MAX)}

KERNELS = [
    K("c02::k_its_to_dt", pre=lambda a: And(valid_ts(a[0], a[1]), off_ok(a[2])),
      claims=[("ITimestamp::to_datetime == Gregorian decomposition of floor-divided (t + o), all fields in range", decomposition)],
      bounds=B_TS, split=(0, 64), tier="deep", timeout=600,
      note="the same code is exercised through the public Offset::to_datetime kernel in the quick tier"),
    K("c02::k_idt_to_ts", pre=lambda a: And(valid_dt(a), off_ok(a[7])),
      claims=[("IDateTime::to_timestamp == exact instant, in normal (same-sign) form",
               lambda a, o: back_exact(a, o[0].ints(), o[1].i))],
      bounds=B_DT, split=(0, {"quick": 4, "thorough": 16})),
    K("c02::k_its_roundtrip", pre=lambda a: And(valid_ts(a[0], a[1]), off_ok(a[2])),
      claims=[("to_timestamp(to_datetime(t, o), o) == t exactly (same representation)",
               lambda a, o: And(o[0].i == a[0], o[1].i == a[1]))],
      bounds=B_TS, split=(0, 256), tier="deep", timeout=600,
      note="implied by the two one-way lemmas plus uniqueness of the normal form; checked directly only in the thorough tier"),
    K("c02::k_idt_to_ts_checked", pre=lambda a: And(valid_dt(a), off_ok(a[7])),
      claims=[("to_timestamp_checked is Some exactly when the instant is within [Timestamp::MIN, Timestamp::MAX]",
               lambda a, o: o[0].is_some == And(dt_total(o[1].i, (a[3], a[4], a[5], a[6])) - a[7] * NS >= TS_MIN_NS,
                                                dt_total(o[1].i, (a[3], a[4], a[5], a[6])) - a[7] * NS <= TS_MAX_NS))],
      bounds=B_DT, split=(0, {"quick": 4, "thorough": 16})),
    K("c02::k_time_to_second", pre=lambda a: ref_valid_time(*a),
      claims=[("ITime::to_second / to_nanosecond == positional value",
               lambda a, o: And(o[0].i == (a[0] * 60 + a[1]) * 60 + a[2], o[1].i == nanos_of_day(*a)))]),
    K("c02::k_second_to_time", pre=lambda a: in_range(a[0], 0, 86399),
      claims=[("ITimeSecond::to_time is the inverse of to_second",
               lambda a, o: And(ref_valid_time(*o.ints()), (o[0].i * 60 + o[1].i) * 60 + o[2].i == a[0], o[3].i == 0))]),
    K("c02::k_nanosecond_to_time", pre=lambda a: in_range(a[0], 0, DAY_NS - 1),
      claims=[("ITimeNanosecond::to_time is the inverse of to_nanosecond",
               lambda a, o: And(ref_valid_time(*o.ints()), nanos_of_day(*o.ints()) == a[0]))]),
    K("c02::k_ts_new", pre=lambda a: BoolVal(True),
      claims=[("Timestamp::new Ok iff representable; value = s*1e9+ns in normal form",
               lambda a, o: opt_ts(o, And(a[1] > -NS, a[1] < NS, ts_in_range(a[0], a[1])) if False else
                                   And(in_range(a[0], TS_MIN_S, TS_MAX_S), in_range(a[1], -999999999, 999999999), ts_in_range(a[0], a[1])),
                                   a[0] * NS + a[1]))]),
    K("c02::k_ts_from_second", pre=lambda a: BoolVal(True),
      claims=[("from_second", lambda a, o: opt_ts(o, in_range(a[0], TS_MIN_S, TS_MAX_S), a[0] * NS))]),
    K("c02::k_ts_from_millisecond", pre=lambda a: BoolVal(True),
      claims=[("from_millisecond", lambda a, o: opt_ts(o, in_range(a[0], TS_MIN_S * 1000, TS_MAX_S * 1000 + 999), a[0] * 1000000))]),
    K("c02::k_ts_from_microsecond", pre=lambda a: BoolVal(True),
      claims=[("from_microsecond", lambda a, o: opt_ts(o, in_range(a[0], TS_MIN_S * 1000000, TS_MAX_S * 1000000 + 999999), a[0] * 1000))]),
    K("c02::k_ts_from_nanosecond", pre=lambda a: BoolVal(True),
      claims=[("from_nanosecond", lambda a, o: opt_ts(o, in_range(a[0], TS_MIN_NS, TS_MAX_NS), a[0]))]),
    K("c02::k_ts_views", pre=lambda a: And(in_range(a[0], TS_MIN_S, TS_MAX_S), in_range(a[1], -999999999, 999999999), ts_in_range(a[0], a[1])),
      claims=[("all unit views denote the same integer nanosecond count (truncating toward zero)",
               lambda a, o: And(o.is_some, views(a, o)))]),
    K("c02::k_off_to_datetime", pre=lambda a: And(valid_ts(a[0], a[1]), off_ok(a[2])),
      claims=[("Offset::to_datetime: every in-range timestamp converts; result = decomposition of t + o",
               lambda a, o: And(o.is_some, decomposition(a, o.some)))],
      bounds=B_TS, split=(0, {"quick": 32, "thorough": 128}), timeout=240),
    K("c02::k_off_to_timestamp", pre=lambda a: And(valid_dt(a), off_ok(a[7])),
      claims=[("Offset::to_timestamp: Ok iff instant in range; exact; normal form",
               lambda a, o: And(o.is_some, opt_ts(o.some[0],
                                And(dt_total(o.some[1].i, (a[3], a[4], a[5], a[6])) - a[7] * NS >= TS_MIN_NS,
                                    dt_total(o.some[1].i, (a[3], a[4], a[5], a[6])) - a[7] * NS <= TS_MAX_NS),
                                dt_total(o.some[1].i, (a[3], a[4], a[5], a[6])) - a[7] * NS)))],
      bounds=B_DT, split=(0, {"quick": 4, "thorough": 16})),
    K("c02::k_off_roundtrip", pre=lambda a: And(valid_ts(a[0], a[1]), off_ok(a[2])),
      claims=[("Offset::to_timestamp(Offset::to_datetime(t)) == t (Ok, equal fields, == holds)",
               lambda a, o: And(o.is_some, o.some.is_some, o.some.some[0][0].i == a[0], o.some.some[0][1].i == a[1], o.some.some[1].b))],
      bounds=B_TS, split=(0, 256), tier="deep", timeout=600),
]
