"""C14 (POSIX rule part, engine M): next/previous transition of EST5EDT,M3.2.0,M11.1.0 for every instant."""
from speclib import *
import importlib.util, os
_p = os.path.join(os.path.dirname(os.path.abspath(__file__)), "C03.py")
_s = importlib.util.spec_from_file_location("c03spec", _p); c03 = importlib.util.module_from_spec(_s); _s.loader.exec_module(c03)

MODULES = ["c03"]


def next_claim(a, o):
    fs = c03.floor_sec(a[0], a[1])
    y = o[1].i
    S, E, S1 = c03.us_start(y), c03.us_end(y), c03.us_start(y + 1)
    want = If(S > fs, S, If(E > fs, E, S1))
    to_dst = Or(S > fs, Not(E > fs))
    r = o[0].some
    return And(o[0].is_some, r[0].i == want, r[1].i == 0, r[2].i == If(to_dst, -14400, -18000), r[3].b == to_dst)


def prev_claim(a, o):
    fs = c03.floor_sec(a[0], a[1])
    ps = If(a[1] == 0, fs - 1, fs)
    y = o[1].i
    S, E, E0 = c03.us_start(y), c03.us_end(y), c03.us_end(y - 1)
    want = If(E <= ps, E, If(S <= ps, S, E0))
    to_dst = And(Not(E <= ps), S <= ps)
    r = o[0].some
    return And(o[0].is_some, r[0].i == want, r[1].i == 0, r[2].i == If(to_dst, -14400, -18000), r[3].b == to_dst)


KERNELS = [
    K("c03::k_posix_us_next", pre=c03.WIN_OK,
      claims=[("years 1900..2100: next_transition(t) = the earliest rule transition strictly after t, with the offset/DST flag in force from it", next_claim)],
      bounds=c03.B_W, split=(0, 8), timeout=200),
    K("c03::k_posix_us_prev", pre=c03.WIN_OK,
      claims=[("years 1900..2100: previous_transition(t) = the latest rule transition strictly before t", prev_claim)],
      bounds=c03.B_W, split=(0, 8), timeout=200),
    K("c03::k_posix_us_next", pre=c03.YEAR_OK,
      claims=[("next_transition(t) = the earliest rule transition strictly after t, with the offset/DST flag in force from it", next_claim)],
      bounds=c03.B_T, split=(0, 128), timeout=900, tier="deep"),
    K("c03::k_posix_us_prev", pre=c03.YEAR_OK,
      claims=[("previous_transition(t) = the latest rule transition strictly before t", prev_claim)],
      bounds=c03.B_T, split=(0, 128), timeout=900, tier="deep"),
]
