"""C04 (POSIX rule part, engine M): civil -> instant classification for EST5EDT,M3.2.0,M11.1.0.

Oracle = the zone's own instant -> civil mapping as characterised under C03: in year y the wall
clock jumps from 02:00 to 03:00 standard->daylight on the 2nd Sunday of March (gap
[02:00, 03:00)) and falls back from 02:00 daylight to 01:00 standard on the 1st Sunday of
November (fold [01:00, 02:00)). A civil datetime is shown by exactly one instant outside both
intervals (with the offset in force), by none inside the gap, by two inside the fold."""
from speclib import *
import importlib.util, os
_p = os.path.join(os.path.dirname(os.path.abspath(__file__)), "C03.py")
_s = importlib.util.spec_from_file_location("c03spec", _p); c03 = importlib.util.module_from_spec(_s); _s.loader.exec_module(c03)

MODULES = ["c03"]
STD, DST = -18000, -14400


def amb_claim(a, o):
    y, m, d, h, mi, s, ns = a
    L = ref_epoch_day(y, m, d) * 86400 + (h * 60 + mi) * 60 + s        # local second count (ns only refine within the second)
    gap0 = c03.nth_sunday(y, 3, 2) * 86400 + 7200
    fold1 = c03.nth_sunday(y, 11, 1) * 86400 + 7200
    in_gap = And(gap0 <= L, L < gap0 + 3600)
    in_fold = And(fold1 - 3600 <= L, L < fold1)
    in_dst = And(gap0 + 3600 <= L, L < fold1 - 3600)
    kind, before, after = o[0].i, o[1].i, o[2].i
    return And(Implies(in_gap, And(kind == 1, before == STD, after == DST)),
               Implies(in_fold, And(kind == 2, before == DST, after == STD)),
               Implies(And(Not(in_gap), Not(in_fold)), And(kind == 0, before == If(in_dst, DST, STD), after == before)))


def rule_claim(std, dst, sm, sn, st, em, en, et):
    """general (non-wrapping) rule: start = sn-th Sunday of month sm at local standard time st,
    end = en-th Sunday of month em at local daylight time et; diff = dst - std of either sign"""
    diff = dst - std

    def claim(a, o):
        y, m, d, h, mi, s, ns = a
        L = ref_epoch_day(y, m, d) * 86400 + (h * 60 + mi) * 60 + s
        S = c03.nth_sunday(y, sm, sn) * 86400 + st
        E = c03.nth_sunday(y, em, en) * 86400 + et
        if diff > 0:
            gap = And(S <= L, L < S + diff)
            fold = And(E - diff <= L, L < E)
            in_dst = And(S + diff <= L, L < E - diff)
            gap_ba, fold_ba = (std, dst), (dst, std)
        else:
            fold = And(S + diff <= L, L < S)
            gap = And(E <= L, L < E - diff)
            in_dst = And(S <= L, L < E)
            gap_ba, fold_ba = (dst, std), (std, dst)
        kind, before, after = o[0].i, o[1].i, o[2].i
        return And(Implies(gap, And(kind == 1, before == gap_ba[0], after == gap_ba[1])),
                   Implies(fold, And(kind == 2, before == fold_ba[0], after == fold_ba[1])),
                   Implies(And(Not(gap), Not(fold)), And(kind == 0, before == If(in_dst, dst, std), after == before)))
    return claim


_PRE = lambda a: And(ref_valid_date(a[0], a[1], a[2]), ref_valid_time(a[3], a[4], a[5], a[6]), in_range(a[0], 1900, 2100))
_B = {0: (1900, 2100), 1: (1, 12), 2: (1, 31), 3: (0, 23), 4: (0, 59), 5: (0, 59), 6: (0, 999999999)}

KERNELS = [
    K("c03::k_posix_mid_ambiguous", pre=_PRE,
      claims=[("EST5EDT,M3.2.0/0,M11.1.0/0 (switches at local midnight; the fold lies on the previous civil day), years 1900..2100", rule_claim(-18000, -14400, 3, 2, 0, 11, 1, 0))],
      bounds=_B, split=(0, 8), timeout=240),
    K("c03::k_posix_neg_ambiguous", pre=_PRE,
      claims=[("CAT-2WAT-1,M4.1.0,M9.1.0 (negative DST: fold at the start, gap at the end), years 1900..2100", rule_claim(7200, 3600, 4, 1, 7200, 9, 1, 7200))],
      bounds=_B, split=(0, 8), timeout=240),
    K("c03::k_posix_us_ambiguous", pre=lambda a: And(ref_valid_date(a[0], a[1], a[2]), ref_valid_time(a[3], a[4], a[5], a[6]), in_range(a[0], 1900, 2100)),
      claims=[("years 1900..2100: gap / fold / unambiguous classification with the offsets before and after, exactly at the rule's wall-clock boundaries", amb_claim)],
      bounds={0: (1900, 2100), 1: (1, 12), 2: (1, 31), 3: (0, 23), 4: (0, 59), 5: (0, 59), 6: (0, 999999999)}, split=(0, 8), timeout=240),
    K("c03::k_posix_us_ambiguous", pre=lambda a: And(ref_valid_date(a[0], a[1], a[2]), ref_valid_time(a[3], a[4], a[5], a[6])),
      claims=[("all years: gap / fold / unambiguous classification", amb_claim)],
      bounds={0: (-9999, 9999), 1: (1, 12), 2: (1, 31), 3: (0, 23), 4: (0, 59), 5: (0, 59), 6: (0, 999999999)}, split=(0, 128), timeout=900, tier="deep"),
]
