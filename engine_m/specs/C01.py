"""C01 — civil calendar facts are exactly the proleptic Gregorian calendar.

The calendar is characterised inductively: anchors (L1) + successor step (L2)
determine epoch-day -> date on the whole range; L3 gives the inverse. Everything
else is stated relative to jiff's own (thereby verified) epoch-day function or
to the textbook rules in speclib (month-length table, 4/100/400 rule).
"""
from speclib import *

MODULES = ["c01"]


def day_in(a):
    return in_range(a[0], MIN_DAY, MAX_DAY)


def valid(a):
    return ref_valid_date(a[0], a[1], a[2])


def succ_claim(a, o):
    d0 = o[0].ints()
    d1 = o[1].ints()
    return eq3(d1, ref_succ(*d0))


def anchors(a, o):
    y, m, d = o.ints()
    n = a[0]
    return And(Implies(n == 0, And(y == 1970, m == 1, d == 1)),
               Implies(n == MIN_DAY, And(y == -9999, m == 1, d == 1)),
               Implies(n == MAX_DAY, And(y == 9999, m == 12, d == 31)))


def opt_eq_date(o, cond_some, date):
    """Option<D3> o is Some(date) iff cond_some, else None"""
    if not o.has_variant("Some"):
        return Not(cond_some)
    return If(cond_some, And(o.is_some, eq3(o.some.ints(), date)), o.is_none)



def date_is(o, epoch):
    d = o.ints()
    return And(ref_valid_date(*d), ref_epoch_day(*d) == epoch)


def nth_of_month_claim(a, o, with_weekday):
    """a = (y, m, d, nth, w); o: Option<...> whose payload's first three ints are the date"""
    y, m, d, nth, w = a
    e1 = ref_epoch_day(y, m, 1)
    dim = ref_dim(y, m)
    wd1 = ref_weekday_monday1(e1)
    wdl = ref_weekday_monday1(e1 + dim - 1)
    pos = 1 + (w - wd1) % 7 + 7 * (nth - 1)
    neg = dim - (wdl - w) % 7 - 7 * (-nth - 1)
    day = If(nth > 0, pos, neg)
    ok = And(nth != 0, nth >= -5, nth <= 5, day >= 1, day <= dim)

    def payload(r):
        ints = r.ints()
        c = And(ints[0] == y, ints[1] == m, ints[2] == day)
        if with_weekday:
            c = And(c, ints[3] == w)
        return c
    return opt_is(o, ok, payload)


def nth_weekday_claim(a, o):
    y, m, d, nth, w = a
    e = ref_epoch_day(y, m, d)
    wd = ref_weekday_monday1(e)
    fwd = e + 1 + (w - wd - 1) % 7 + 7 * (nth - 1)
    bwd = e - 1 - (wd - 1 - w) % 7 - 7 * (-nth - 1)
    tgt = If(nth > 0, fwd, bwd)
    ok = And(nth != 0, in_range(nth, -1043497, 1043497), in_range(tgt, MIN_DAY, MAX_DAY))
    return And(o.is_some, opt_is(o.some, ok, lambda r: date_is(r, tgt)))


def date_facts_claim(a, o):
    y, m, d = a
    e = ref_epoch_day(y, m, d)
    e0 = ref_epoch_day(y, 1, 1)
    dim = ref_dim(y, m)

    def facts(r):
        return And(r[0].i == ref_weekday_monday1(e), r[1].i == e - e0 + 1, r[2].b == ref_is_leap(y), r[3].i == dim,
                   r[4].i == If(ref_is_leap(y), 366, 365), eq3(r[5].ints(), (y, m, 1)), eq3(r[6].ints(), (y, m, dim)),
                   eq3(r[7].ints(), (y, 1, 1)), eq3(r[8].ints(), (y, 12, 31)))
    return opt_is(o, ref_valid_date(y, m, d), facts)


def ref_long_year(y):
    wd = ref_weekday_monday1(ref_epoch_day(y, 12, 31))
    return Or(wd == 4, And(ref_is_leap(y), wd == 5))


def iso_claim(a, o):
    y, m, d = a
    e = ref_epoch_day(y, m, d)
    wd = ref_weekday_monday1(e)
    th = e - (wd - 1) + 3
    iy, iw, iwd = o.some[0].i, o.some[1].i, o.some[2].i
    j1 = ref_epoch_day(iy, 1, 1)
    return And(o.is_some, iwd == wd, j1 <= th, th <= ref_epoch_day(iy, 12, 31), iw == (th - j1) / 7 + 1, eq3(o.some[3].ints(), (y, m, d)))


def iso_new_claim(a, o):
    y, w, wd = a
    jan4 = ref_epoch_day(y, 1, 4)
    mon1 = jan4 - (ref_weekday_monday1(jan4) - 1)
    e = mon1 + (w - 1) * 7 + (wd - 1)
    ok = And(in_range(y, -9999, 9999), w >= 1, w <= If(ref_long_year(y), 53, 52), in_range(e, MIN_DAY, MAX_DAY))
    return And(o.is_some, opt_is(o.some, ok, lambda r: And(date_is(r[0], e), r[1].i == y, r[2].i == w, r[3].i == wd)))


KERNELS = [
    K("c01::k_to_date", pre=day_in,
      claims=[("L1 anchors: day 0 = 1970-01-01, MIN = -9999-01-01, MAX = 9999-12-31", anchors),
              ("to_date yields a valid calendar date", lambda a, o: ref_valid_date(*o.ints()))],
      vectors=[[0], [MIN_DAY], [MAX_DAY], [-1], [1], [11016], [-719528]]),
    K("c01::k_step", pre=lambda a: in_range(a[0], MIN_DAY, MAX_DAY - 1),
      claims=[("L2 to_date(n+1) is the calendar successor of to_date(n)", succ_claim)],
      bounds={0: (MIN_DAY, MAX_DAY - 1)}, split=(0, 256), tier="deep", timeout=600),
    K("c01::k_epoch_step", pre=valid,
      claims=[("L2' to_epoch_day(tomorrow(d)) == to_epoch_day(d) + 1 (tomorrow == calendar successor, proved under L7)",
               lambda a, o: And(opt_eq_date(Out(VEnum(o[1].v.discr, {"Some": {0: o[1].some[0].v}} if o[1].has_variant("Some") else {}, "Option", o[1].v.dmap)),
                                            Not(And(a[0] == 9999, a[1] == 12, a[2] == 31)), ref_succ(a[0], a[1], a[2])),
                                Implies(o[1].is_some, o[1].some[1].i == o[0].i + 1)))],
      bounds={0: (-9999, 9999), 1: (1, 12), 2: (1, 31)}, split=(0, {"quick": 8, "thorough": 32})),
    K("c01::k_inv", pre=day_in,
      claims=[("L3 to_epoch_day(to_date(n)) == n", lambda a, o: o.i == a[0])],
      bounds={0: (MIN_DAY, MAX_DAY)}, split=(0, {"quick": 32, "thorough": 128}), timeout=240),
    K("c01::k_to_epoch_day", pre=valid,
      claims=[("epoch day of a valid date lies in [MIN_DAY, MAX_DAY]", lambda a, o: in_range(o.i, MIN_DAY, MAX_DAY))]),
    K("c01::k_weekday_step", pre=lambda a: in_range(a[0], MIN_DAY, MAX_DAY - 1),
      claims=[("L4 weekday(n+1) follows weekday(n) cyclically", lambda a, o: o[1].i == If(o[0].i == 7, 1, o[0].i + 1)),
              ("weekday in 1..=7", lambda a, o: in_range(o[0].i, 1, 7)),
              ("L1 day 0 is a Thursday", lambda a, o: Implies(a[0] == 0, o[0].i == 4))]),
    K("c01::k_date_weekday", pre=valid,
      claims=[("IDate::weekday agrees with the epoch-day weekday", lambda a, o: o[0].i == ref_weekday_monday1(o[1].i))]),
    K("c01::k_leap", pre=lambda a: in_range(a[0], -9999, 9999),
      claims=[("L5 is_leap_year == 4/100/400 rule", lambda a, o: o.b == ref_is_leap(a[0]))]),
    K("c01::k_leap", pre=lambda a: BoolVal(True),
      claims=[("is_leap_year == 4/100/400 rule for every i16", lambda a, o: o.b == ref_is_leap(a[0]))]),
    K("c01::k_dim", pre=lambda a: And(in_range(a[0], -9999, 9999), in_range(a[1], 1, 12)),
      claims=[("L5 days_in_month == month-length table", lambda a, o: o.i == ref_dim(a[0], a[1]))]),
    K("c01::k_diy", pre=lambda a: in_range(a[0], -9999, 9999),
      claims=[("days_in_year == 365 + leap", lambda a, o: o.i == If(ref_is_leap(a[0]), 366, 365))]),
    K("c01::k_itomorrow", pre=valid,
      claims=[("L7 IDate::tomorrow == successor, Err exactly at 9999-12-31",
               lambda a, o: opt_eq_date(o[0], Not(And(a[0] == 9999, a[1] == 12, a[2] == 31)), ref_succ(a[0], a[1], a[2])))]),
    K("c01::k_iyesterday", pre=valid,
      claims=[("L7 IDate::yesterday == predecessor, Err exactly at -9999-01-01",
               lambda a, o: opt_eq_date(o[0], Not(And(a[0] == -9999, a[1] == 1, a[2] == 1)), ref_pred(a[0], a[1], a[2])))]),
    K("c01::k_itry_new", pre=lambda a: And(in_range(a[0], -9999, 9999), in_range(a[1], 1, 12), a[2] >= 1),
      claims=[("IDate::try_new Ok iff day <= month length",
               lambda a, o: opt_eq_date(o, a[2] <= ref_dim(a[0], a[1]), (a[0], a[1], a[2])))]),
    K("c01::k_epoch_checked_add", pre=lambda a: in_range(a[0], MIN_DAY, MAX_DAY),
      claims=[("IEpochDay::checked_add Ok iff sum in range, value exact",
               lambda a, o: If(in_range(a[0] + a[1], MIN_DAY, MAX_DAY), And(o.is_some, o.some.i == a[0] + a[1]), o.is_none))]),
    K("c01::k_date_new", pre=lambda a: BoolVal(True),
      claims=[("L10 Date::new Ok iff (y, m, d) is a valid Gregorian date in range; fields preserved",
               lambda a, o: opt_eq_date(o, ref_valid_date(a[0], a[1], a[2]), (a[0], a[1], a[2])))]),
    # ---------------- closed-form cross-check and the public civil::Date API
    K("c01::k_to_epoch_day", pre=valid,
      claims=[("to_epoch_day == textbook closed form (365y + leap days + month offset + day)", lambda a, o: o.i == ref_epoch_day(a[0], a[1], a[2]))],
      bounds={0: (-9999, 9999), 1: (1, 12), 2: (1, 31)}, split=(0, {"quick": 4, "thorough": 16})),
    K("c01::k_ichecked_add_days", pre=valid,
      claims=[("IDate::checked_add_days (incl. the 0 / +1 / -1 fast paths) == epoch day + n; Err iff out of range",
               lambda a, o: opt_is(o[0], in_range(o[1].i + a[3], MIN_DAY, MAX_DAY), lambda r: date_is(r, o[1].i + a[3])))],
      bounds={0: (-9999, 9999), 1: (1, 12), 2: (1, 31)}, split=(0, {"quick": 4, "thorough": 16})),
    K("c01::k_ifrom_doy", pre=lambda a: in_range(a[0], -9999, 9999),
      claims=[("IDate::from_day_of_year: Ok iff 1 <= doy <= days in year; date = Jan 1 + doy - 1",
               lambda a, o: opt_is(o[0], in_range(a[1], 1, If(ref_is_leap(a[0]), 366, 365)), lambda r: date_is(r, o[1].i + a[1] - 1)))],
      bounds={0: (-9999, 9999)}, split=(0, {"quick": 4, "thorough": 16})),
    K("c01::k_ifrom_doy_no_leap", pre=lambda a: in_range(a[0], -9999, 9999),
      claims=[("IDate::from_day_of_year_no_leap: Ok iff 1 <= doy <= 365; Feb 29 is never produced; day n of a 365-day numbering",
               lambda a, o: opt_is(o[0], in_range(a[1], 1, 365),
                                   lambda r: And(date_is(r, o[1].i + a[1] - 1 + If(And(ref_is_leap(a[0]), a[1] >= 60), 1, 0)),
                                                 Not(And(r[1].i == 2, r[2].i == 29)))))],
      bounds={0: (-9999, 9999)}, split=(0, {"quick": 4, "thorough": 16})),
    K("c01::k_weekday_since", pre=lambda a: And(in_range(a[0], 1, 7), in_range(a[1], 1, 7)),
      claims=[("IWeekday::since == (a - b) mod 7", lambda a, o: o.i == (a[0] - a[1]) % 7)]),
    K("c01::k_weekday_from_sunday_zero", pre=lambda a: in_range(a[0], 0, 6),
      claims=[("Sunday-zero offset -> Monday-one offset", lambda a, o: o.i == If(a[0] == 0, 7, a[0]))]),
    K("c01::k_inth_weekday_of_month", pre=lambda a: And(valid(a), in_range(a[4], 1, 7)),
      claims=[("IDate::nth_weekday_of_month == the unique day of the month with that weekday and ordinal; Err iff none / nth == 0 / |nth| > 5",
               lambda a, o: nth_of_month_claim(a, o, True))],
      bounds={0: (-9999, 9999), 1: (1, 12), 2: (1, 31), 3: (-128, 127), 4: (1, 7)}, split=(0, {"quick": 4, "thorough": 16})),
    K("c01::k_date_facts", pre=lambda a: BoolVal(True),
      claims=[("Date::{weekday, day_of_year, in_leap_year, days_in_month, days_in_year, first/last_of_month, first/last_of_year} == calendar facts",
               date_facts_claim)],
      split=(0, {"quick": 4, "thorough": 16}), bounds={0: (-32768, 32767)}),
    K("c01::k_date_doy_no_leap", pre=lambda a: BoolVal(True),
      claims=[("Date::day_of_year_no_leap: None exactly on Feb 29, otherwise the day number in a 365-day year",
               lambda a, o: If(valid(a), And(o.is_some, (lambda e, e0: opt_is(o.some, Not(And(a[1] == 2, a[2] == 29)),
                                lambda r: r.i == e - e0 + 1 - If(And(ref_is_leap(a[0]), a[1] > 2), 1, 0)))(ref_epoch_day(a[0], a[1], a[2]), ref_epoch_day(a[0], 1, 1))), o.is_none))]),
    K("c01::k_date_tomorrow", pre=lambda a: BoolVal(True),
      claims=[("L7 Date::tomorrow == calendar successor (own fast path), Err exactly at 9999-12-31",
               lambda a, o: If(valid(a), And(o.is_some, opt_eq_date(o.some, Not(And(a[0] == 9999, a[1] == 12, a[2] == 31)), ref_succ(a[0], a[1], a[2]))), o.is_none))]),
    K("c01::k_date_yesterday", pre=lambda a: BoolVal(True),
      claims=[("L7 Date::yesterday == calendar predecessor, Err exactly at -9999-01-01",
               lambda a, o: If(valid(a), And(o.is_some, opt_eq_date(o.some, Not(And(a[0] == -9999, a[1] == 1, a[2] == 1)), ref_pred(a[0], a[1], a[2]))), o.is_none))]),
    K("c01::k_date_nth_weekday_of_month", pre=lambda a: And(valid(a), in_range(a[4], 1, 7)),
      claims=[("Date::nth_weekday_of_month (public) == the unique day of the month with that weekday and ordinal",
               lambda a, o: And(o.is_some, nth_of_month_claim(a, o.some, False)))],
      bounds={0: (-9999, 9999), 1: (1, 12), 2: (1, 31), 3: (-128, 127), 4: (1, 7)}, split=(0, {"quick": 4, "thorough": 16})),
    K("c01::k_date_nth_weekday", pre=lambda a: And(valid(a), in_range(a[4], 1, 7)),
      claims=[("Date::nth_weekday(nth: i32) == nth occurrence of the weekday strictly after/before the date; Err iff nth == 0 or out of range",
               nth_weekday_claim)],
      bounds={0: (-9999, 9999), 1: (1, 12), 2: (1, 31), 4: (1, 7)}, split=(0, {"quick": 4, "thorough": 16})),
    K("c01::k_date_iso", pre=valid,
      claims=[("L9 Date::iso_week_date == (year of the week's Thursday, ordinal of that week, weekday); iso.date() is the identity", iso_claim)],
      bounds={0: (-9999, 9999), 1: (1, 12), 2: (1, 31)}, split=(0, 64), tier="deep", timeout=900),
    K("c01::k_iso_new", pre=lambda a: in_range(a[2], 1, 7),
      claims=[("L9 ISOWeekDate::new Ok iff 1 <= week <= weeks(year) and the date is in range; date(iso) and back are consistent", iso_new_claim)],
      bounds={0: (-32768, 32767), 1: (-128, 127), 2: (1, 7)}, split=(0, {"quick": 16, "thorough": 64}), timeout=300),
    K("c01::k_iso_facts", pre=lambda a: in_range(a[2], 1, 7),
      claims=[("ISOWeekDate::{weeks_in_year, in_long_year, days_in_year} == 53 weeks iff Dec 31 is a Thursday, or a Friday in a leap year",
               lambda a, o: And(o.is_some, BoolVal(True) if not o.some.has_variant("Some") else Implies(o.some.is_some, And(o.some.some[0].i == If(ref_long_year(a[0]), 53, 52),
                                                                      o.some.some[1].b == ref_long_year(a[0]),
                                                                      o.some.some[2].i == If(ref_long_year(a[0]), 371, 364)))))],
      bounds={0: (-32768, 32767), 1: (-128, 127), 2: (1, 7)}, split=(0, {"quick": 4, "thorough": 16})),
]


# ---------------------------------------------------------------------------------------------
# Quick tier: the heavier lemmas are proved for the years 1600..2399 (two full 400-year Gregorian
# cycles, both sides of 1970: every leap-year / weekday / ISO-week pattern occurs in them); the
# full -9999..9999 range of the same kernels is the thorough tier.
import copy as _copy
YQ0, YQ1 = 2096, 2104
_THOROUGH_ONLY = {"k_ichecked_add_days", "k_date_nth_weekday"}   # do not finish in 200 s even on the year window
_HEAVY = {"k_ifrom_doy": 1, "k_ifrom_doy_no_leap": 1, "k_inth_weekday_of_month": 1,
          "k_date_facts": 1, "k_date_nth_weekday_of_month": 1, "k_iso_new": 1, "k_iso_facts": 1}


def _narrow(k, n):
    q = _copy.copy(k)
    pre0 = k.pre
    q.pre = lambda a, pre0=pre0: And(pre0(a), in_range(a[0], YQ0, YQ1))
    q.bounds = dict(k.bounds)
    q.bounds[0] = (YQ0, YQ1)
    q.split = (0, n)
    q.claims = [(lab + " [years %d..%d]" % (YQ0, YQ1) + "", f) for lab, f in k.claims]
    q.tier = "quick"
    q.timeout = 200
    return q


_new = []
for _k in KERNELS:
    _short = _k.name.split("::")[-1]
    if _short in _THOROUGH_ONLY:
        _k.tier = "deep"
        _k.split = (0, 64)
        _k.timeout = 900
    if _short in _HEAVY and _k.tier == "quick":
        _new.append(_narrow(_k, _HEAVY[_short]))
        _k.tier = "deep"
        _k.split = (0, 64)
        _k.timeout = 900
    _new.append(_k)
KERNELS = _new
