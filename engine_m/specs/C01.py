"""C01 — civil calendar facts are exactly the proleptic Gregorian calendar.

The calendar is characterised inductively: anchors (L1) + successor step (L2)
determine epoch-day -> date on the whole range; L3 gives the inverse. Everything
else is stated relative to jiff's own (thereby verified) epoch-day function or
to the textbook rules in speclib (month-length table, 4/100/400 rule).
"""
from speclib import *

MODULES = ["c01"]


def day_in(a):
    return in_range(a[0], MIN_DAY, MAX_DAY)


def valid(a):
    return ref_valid_date(a[0], a[1], a[2])


def succ_claim(a, o):
    d0 = o[0].ints()
    d1 = o[1].ints()
    return eq3(d1, ref_succ(*d0))


def anchors(a, o):
    y, m, d = o.ints()
    n = a[0]
    return And(Implies(n == 0, And(y == 1970, m == 1, d == 1)),
               Implies(n == MIN_DAY, And(y == -9999, m == 1, d == 1)),
               Implies(n == MAX_DAY, And(y == 9999, m == 12, d == 31)))


def opt_eq_date(o, cond_some, date):
    """Option<D3> o is Some(date) iff cond_some, else None"""
    if not o.has_variant("Some"):
        return Not(cond_some)
    return If(cond_some, And(o.is_some, eq3(o.some.ints(), date)), o.is_none)


KERNELS = [
    K("c01::k_to_date", pre=day_in,
      claims=[("L1 anchors: day 0 = 1970-01-01, MIN = -9999-01-01, MAX = 9999-12-31", anchors),
              ("to_date yields a valid calendar date", lambda a, o: ref_valid_date(*o.ints()))],
      vectors=[[0], [MIN_DAY], [MAX_DAY], [-1], [1], [11016], [-719528]]),
    K("c01::k_step", pre=lambda a: in_range(a[0], MIN_DAY, MAX_DAY - 1),
      claims=[("L2 to_date(n+1) is the calendar successor of to_date(n)", succ_claim)],
      bounds={0: (MIN_DAY, MAX_DAY - 1)}, split=(0, 256), tier="thorough", timeout=600),
    K("c01::k_epoch_step", pre=valid,
      claims=[("L2' to_epoch_day(tomorrow(d)) == to_epoch_day(d) + 1 (tomorrow == calendar successor, proved under L7)",
               lambda a, o: And(opt_eq_date(Out(VEnum(o[1].v.discr, {"Some": {0: o[1].some[0].v}} if o[1].has_variant("Some") else {}, "Option", o[1].v.dmap)),
                                            Not(And(a[0] == 9999, a[1] == 12, a[2] == 31)), ref_succ(a[0], a[1], a[2])),
                                Implies(o[1].is_some, o[1].some[1].i == o[0].i + 1)))],
      bounds={0: (-9999, 9999), 1: (1, 12), 2: (1, 31)}, split=(0, {"quick": 8, "thorough": 32})),
    K("c01::k_inv", pre=day_in,
      claims=[("L3 to_epoch_day(to_date(n)) == n", lambda a, o: o.i == a[0])],
      bounds={0: (MIN_DAY, MAX_DAY)}, split=(0, {"quick": 32, "thorough": 128}), timeout=240),
    K("c01::k_to_epoch_day", pre=valid,
      claims=[("epoch day of a valid date lies in [MIN_DAY, MAX_DAY]", lambda a, o: in_range(o.i, MIN_DAY, MAX_DAY))]),
    K("c01::k_weekday_step", pre=lambda a: in_range(a[0], MIN_DAY, MAX_DAY - 1),
      claims=[("L4 weekday(n+1) follows weekday(n) cyclically", lambda a, o: o[1].i == If(o[0].i == 7, 1, o[0].i + 1)),
              ("weekday in 1..=7", lambda a, o: in_range(o[0].i, 1, 7)),
              ("L1 day 0 is a Thursday", lambda a, o: Implies(a[0] == 0, o[0].i == 4))]),
    K("c01::k_date_weekday", pre=valid,
      claims=[("IDate::weekday agrees with the epoch-day weekday", lambda a, o: o[0].i == ref_weekday_monday1(o[1].i))]),
    K("c01::k_leap", pre=lambda a: in_range(a[0], -9999, 9999),
      claims=[("L5 is_leap_year == 4/100/400 rule", lambda a, o: o.b == ref_is_leap(a[0]))]),
    K("c01::k_leap", pre=lambda a: BoolVal(True),
      claims=[("is_leap_year == 4/100/400 rule for every i16", lambda a, o: o.b == ref_is_leap(a[0]))]),
    K("c01::k_dim", pre=lambda a: And(in_range(a[0], -9999, 9999), in_range(a[1], 1, 12)),
      claims=[("L5 days_in_month == month-length table", lambda a, o: o.i == ref_dim(a[0], a[1]))]),
    K("c01::k_diy", pre=lambda a: in_range(a[0], -9999, 9999),
      claims=[("days_in_year == 365 + leap", lambda a, o: o.i == If(ref_is_leap(a[0]), 366, 365))]),
    K("c01::k_itomorrow", pre=valid,
      claims=[("L7 IDate::tomorrow == successor, Err exactly at 9999-12-31",
               lambda a, o: opt_eq_date(o[0], Not(And(a[0] == 9999, a[1] == 12, a[2] == 31)), ref_succ(a[0], a[1], a[2])))]),
    K("c01::k_iyesterday", pre=valid,
      claims=[("L7 IDate::yesterday == predecessor, Err exactly at -9999-01-01",
               lambda a, o: opt_eq_date(o[0], Not(And(a[0] == -9999, a[1] == 1, a[2] == 1)), ref_pred(a[0], a[1], a[2])))]),
    K("c01::k_itry_new", pre=lambda a: And(in_range(a[0], -9999, 9999), in_range(a[1], 1, 12), a[2] >= 1),
      claims=[("IDate::try_new Ok iff day <= month length",
               lambda a, o: opt_eq_date(o, a[2] <= ref_dim(a[0], a[1]), (a[0], a[1], a[2])))]),
    K("c01::k_epoch_checked_add", pre=lambda a: in_range(a[0], MIN_DAY, MAX_DAY),
      claims=[("IEpochDay::checked_add Ok iff sum in range, value exact",
               lambda a, o: If(in_range(a[0] + a[1], MIN_DAY, MAX_DAY), And(o.is_some, o.some.i == a[0] + a[1]), o.is_none))]),
    K("c01::k_date_new", pre=lambda a: BoolVal(True),
      claims=[("L10 Date::new Ok iff (y, m, d) is a valid Gregorian date in range; fields preserved",
               lambda a, o: opt_eq_date(o, ref_valid_date(a[0], a[1], a[2]), (a[0], a[1], a[2])))]),
]
