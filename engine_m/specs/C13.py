"""C13 (fixed-offset zones only, engine M): a Zoned built from an instant and a fixed-offset zone is
internally consistent: its offset is the zone's offset, its civil datetime is the instant shifted by
it, and the instant is unchanged."""
from speclib import *
import importlib.util, os
_p = os.path.join(os.path.dirname(os.path.abspath(__file__)), "C02.py")
_s = importlib.util.spec_from_file_location("c02spec", _p); c02 = importlib.util.module_from_spec(_s); _s.loader.exec_module(c02)

MODULES = ["c20", "c02"]


def claim(a, o):
    r = o.some
    d, t, e = r[1].ints(), r[2].ints(), r[4].i
    return And(o.is_some, r[0].i == a[2], r[3][0].i == a[0], r[3][1].i == a[1],
               ref_valid_date(*d), ref_valid_time(*t), c02.dt_total(e, t) == a[0] * NS + a[1] + a[2] * NS)


KERNELS = [
    K("c20::k_zoned_fixed_new", pre=lambda a: And(c02.valid_ts(a[0], a[1]), c02.off_ok(a[2])),
      claims=[("Zoned::new(t, fixed(o)): offset == o, civil datetime == decomposition of t + o, instant unchanged", claim)],
      bounds=c02.B_TS, split=(0, {"quick": 32, "thorough": 128}), timeout=240),
]
KERNELS.append(
    K("c20::k_zoned_fixed_cmp", pre=lambda a: And(c02.valid_ts(a[0], a[1]), c02.off_ok(a[2]), c02.valid_ts(a[3], a[4]), c02.off_ok(a[5])),
      claims=[("Zoned == / cmp / partial_cmp in any two fixed zones depend on the instants only",
               lambda a, o: (lambda T1, T2: And(o.is_some, o.some[0].b == (T1 == T2), o.some[1].i == If(T1 < T2, -1, If(T1 > T2, 1, 0)), o.some[2].b))(
                   a[0] * NS + a[1], a[3] * NS + a[4]))],
      bounds={0: c02.B_TS[0], 1: c02.B_TS[1], 2: c02.B_TS[2], 3: c02.B_TS[0], 4: c02.B_TS[1], 5: c02.B_TS[2]}, timeout=240))
# The other direction (a Zoned reached from a civil datetime in a fixed zone, `DateTime::to_zoned` /
# `Offset::to_timestamp`): the instant is exact and stored in the unique normal form, so that the derived
# ==, ordering and hash of the (second, nanosecond) pair depend on the instant only. Same kernels as C02.
KERNELS += [k for k in c02.KERNELS if k.name in ("c02::k_idt_to_ts", "c02::k_off_to_timestamp") and k.tier == "quick"]
