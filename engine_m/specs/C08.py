"""C08 — civil date/time arithmetic follows the documented calendar rules.

Reference = exact integer arithmetic on (epoch day, nanosecond of day). `ref_epoch_day` is the
textbook closed form (C01 proves jiff's own epoch-day function equal to it).
"""
from speclib import *

MODULES = ["c08"]


def time_ok(a):
    return ref_valid_time(a[0], a[1], a[2], a[3])


def span_time_ok(a, k):
    """a[k] = neg flag, a[k+1..k+6] = hours..nanoseconds magnitudes within limits"""
    names = ["hours", "minutes", "seconds", "milliseconds", "microseconds", "nanoseconds"]
    return And([in_range(a[k + 1 + i], 0, LIM[n]) for i, n in enumerate(names)])


def span_time_total(a, k):
    mag = a[k + 1] * HOUR_NS + a[k + 2] * MIN_NS + a[k + 3] * NS + a[k + 4] * 1000000 + a[k + 5] * 1000 + a[k + 6]
    return If(a[k], -mag, mag)


def tod(a):
    return nanos_of_day(a[0], a[1], a[2], a[3])


def time_is(o, total):
    """o: Out of T4; it is the valid clock time denoting `total` nanoseconds of day"""
    t = o.ints()
    return And(ref_valid_time(*t), nanos_of_day(*t) == total)


I64_MIN, I64_MAX = -(1 << 63), (1 << 63) - 1


def role_f2(k, sign=1):
    """F2 role: some 64-bit product or partial sum of the unit-by-unit accumulation overflows"""
    def role(a):
        s = sgn(a[k]) * sign
        terms = [s * a[k + 1] * HOUR_NS, s * a[k + 2] * MIN_NS, s * a[k + 3] * NS, s * a[k + 4] * 1000000, s * a[k + 5] * 1000, s * a[k + 6]]
        conds = []
        acc = tod(a)
        for t in terms:
            conds.append(Not(in_range(t, I64_MIN, I64_MAX)))
            acc = acc + t
            conds.append(Not(in_range(acc, I64_MIN, I64_MAX)))
        return Or(conds)
    return role


B_TIME = {0: (0, 23), 1: (0, 59), 2: (0, 59), 3: (0, 999999999)}
B_SPAN_T = {5: (0, LIM["hours"]), 6: (0, LIM["minutes"]), 7: (0, LIM["seconds"]), 8: (0, LIM["milliseconds"]),
            9: (0, LIM["microseconds"]), 10: (0, LIM["nanoseconds"])}
B_TS = {**B_TIME, **B_SPAN_T}


def sdur_ok(s, n):
    return And(n > -NS, n < NS, Not(And(s > 0, n < 0)), Not(And(s < 0, n > 0)))


def date_ok(a):
    return ref_valid_date(a[0], a[1], a[2])


def date_is(o, epoch):
    d = o.ints()
    return And(ref_valid_date(*d), ref_epoch_day(*d) == epoch)


def cal_ok(a, k):
    return And(in_range(a[k + 1], 0, LIM["years"]), in_range(a[k + 2], 0, LIM["months"]),
               in_range(a[k + 3], 0, LIM["weeks"]), in_range(a[k + 4], 0, LIM["days"]))


def cal_result_epoch(a, k, sign=1):
    s = sgn(a[k]) * sign
    y2, m2, d2 = ref_add_months(a[0], a[1], a[2], s * a[k + 1], s * a[k + 2])
    return y2, m2, d2, ref_epoch_day(y2, m2, d2) + s * (7 * a[k + 3] + a[k + 4])


def date_add_cal_claim(sign):
    def claim(a, o):
        y2, m2, d2, e = cal_result_epoch(a, 3, sign)
        ok = And(in_range(y2, -9999, 9999), in_range(e, MIN_DAY, MAX_DAY))
        return And(o.is_some, opt_is(o.some, ok, lambda r: date_is(r, e)))
    return claim



def dt_total_of(r):
    """r: Out of (D3, T4) -> exact nanosecond count since the epoch of that civil datetime"""
    d, t = r[0].ints(), r[1].ints()
    return And(ref_valid_date(*d), ref_valid_time(*t)), ref_epoch_day(*d) * DAY_NS + nanos_of_day(*t)


DT_MIN = MIN_DAY * DAY_NS
DT_MAX = (MAX_DAY + 1) * DAY_NS - 1


def dt_add_claim(sign):
    def claim(a, o):
        s = sgn(a[7]) * sign
        y2, m2, d2 = ref_add_months(a[0], a[1], a[2], s * a[8], s * a[9])
        tunits = a[12] * HOUR_NS + a[13] * MIN_NS + a[14] * NS + a[15]
        total = ref_epoch_day(y2, m2, d2) * DAY_NS + s * (7 * a[10] + a[11]) * DAY_NS + nanos_of_day(a[3], a[4], a[5], a[6]) + s * tunits
        ok = And(in_range(y2, -9999, 9999), in_range(total, DT_MIN, DT_MAX))

        def payload(r):
            v, t = dt_total_of(r)
            return And(v, t == total)
        return And(o.is_some, opt_is(o.some, ok, payload))
    return claim


def dt_add_sdur_claim(a, o):
    total = ref_epoch_day(a[0], a[1], a[2]) * DAY_NS + nanos_of_day(a[3], a[4], a[5], a[6]) + a[7] * NS + a[8]
    ok = in_range(total, DT_MIN, DT_MAX)

    def payload(r):
        v, t = dt_total_of(r)
        return And(v, t == total)
    vs, ts = dt_total_of(o.some[1])
    sat = And(vs, ts == If(total < DT_MIN, DT_MIN, If(total > DT_MAX, DT_MAX, total)))
    return And(o.is_some, opt_is(o.some[0], ok, payload), sat)


B_DATE = {0: (-9999, 9999), 1: (1, 12), 2: (1, 31)}
B_CAL = {**B_DATE, 4: (0, LIM["years"]), 5: (0, LIM["months"]), 6: (0, LIM["weeks"]), 7: (0, LIM["days"])}

# magnitudes below which no 64-bit product or partial sum can overflow (so the F2 role is empty there)
# (each product <= 1.44e18, six of them plus the time of day stay below 2^63 ~ 9.22e18)
B_SPAN_T_SMALL = {5: (0, 400000), 6: (0, 24000000), 7: (0, 1400000000), 8: (0, 1400000000000), 9: (0, 1400000000000000), 10: (0, 1400000000000000000)}
B_TS_SMALL = {**B_TIME, **B_SPAN_T_SMALL}


def span_time_small(a, k):
    return And([in_range(a[k + 1 + i], 0, B_SPAN_T_SMALL[5 + i][1]) for i in range(6)])


KERNELS = [
    K("c08::k_time_wrapping_add_span", pre=lambda a: And(time_ok(a), span_time_small(a, 4)),
      claims=[("Time::wrapping_add(Span) == (t + sum of units) mod 24h exactly (unit magnitudes below the 64-bit overflow region)",
               lambda a, o: And(o.is_some, time_is(o.some, (tod(a) + span_time_total(a, 4)) % DAY_NS)))],
      bounds=B_TS_SMALL),
    K("c08::k_time_wrapping_sub_span", pre=lambda a: And(time_ok(a), span_time_small(a, 4)),
      claims=[("Time::wrapping_sub(Span) == (t - sum of units) mod 24h exactly (unit magnitudes below the 64-bit overflow region)",
               lambda a, o: And(o.is_some, time_is(o.some, (tod(a) - span_time_total(a, 4)) % DAY_NS)))],
      bounds=B_TS_SMALL),
    K("c08::k_time_wrapping_add_span", pre=lambda a: And(time_ok(a), span_time_ok(a, 4)),
      claims=[("Time::wrapping_add(Span) == (t + sum of units) mod 24h exactly", lambda a, o: And(o.is_some, time_is(o.some, (tod(a) + span_time_total(a, 4)) % DAY_NS)))],
      bounds=B_TS, known=[("F2", role_f2(4))], probe_only=True),
    K("c08::k_time_wrapping_sub_span", pre=lambda a: And(time_ok(a), span_time_ok(a, 4)),
      claims=[("Time::wrapping_sub(Span) == (t - sum of units) mod 24h exactly", lambda a, o: And(o.is_some, time_is(o.some, (tod(a) - span_time_total(a, 4)) % DAY_NS)))],
      bounds=B_TS, known=[("F2", role_f2(4, -1))], probe_only=True),
    K("c08::k_time_wrapping_add_span", pre=lambda a: And(time_ok(a), span_time_ok(a, 4)),
      claims=[("Time::wrapping_add(Span) == (t + sum of units) mod 24h exactly, outside the F2 role (full unit limits)",
               lambda a, o: And(o.is_some, time_is(o.some, (tod(a) + span_time_total(a, 4)) % DAY_NS)))],
      bounds=B_TS, known=[("F2", role_f2(4))], tier="deep", timeout=1800),
    K("c08::k_time_checked_add_span", pre=lambda a: And(time_ok(a), span_time_ok(a, 4)),
      claims=[("Time::checked_add(Span) fails exactly when the result leaves the day",
               lambda a, o: And(o.is_some, opt_is(o.some, in_range(tod(a) + span_time_total(a, 4), 0, DAY_NS - 1),
                                                  lambda r: time_is(r, tod(a) + span_time_total(a, 4)))))],
      bounds=B_TS),
    K("c08::k_time_saturating_add_span", pre=lambda a: And(time_ok(a), span_time_ok(a, 4)),
      claims=[("Time::saturating_add(Span) clamps to 00:00 / 23:59:59.999999999",
               lambda a, o: And(o.is_some, time_is(o.some, If(tod(a) + span_time_total(a, 4) < 0, 0,
                                                              If(tod(a) + span_time_total(a, 4) > DAY_NS - 1, DAY_NS - 1, tod(a) + span_time_total(a, 4))))))],
      bounds=B_TS),
    K("c08::k_time_wrapping_add_sdur", pre=lambda a: And(time_ok(a), sdur_ok(a[4], a[5])),
      claims=[("Time::wrapping_add/sub(SignedDuration) == (t +/- d) mod 24h",
               lambda a, o: And(o.is_some, time_is(o.some[0], (tod(a) + a[4] * NS + a[5]) % DAY_NS),
                                time_is(o.some[1], (tod(a) - a[4] * NS - a[5]) % DAY_NS)))],
      bounds={**B_TIME, 5: (-999999999, 999999999)}),
    K("c08::k_time_checked_add_sdur", pre=lambda a: And(time_ok(a), sdur_ok(a[4], a[5])),
      claims=[("Time::checked_add(SignedDuration) fails exactly when the result leaves the day; saturating clamps",
               lambda a, o: And(o.is_some,
                                opt_is(o.some[0], in_range(tod(a) + a[4] * NS + a[5], 0, DAY_NS - 1), lambda r: time_is(r, tod(a) + a[4] * NS + a[5])),
                                time_is(o.some[1], If(tod(a) + a[4] * NS + a[5] < 0, 0, If(tod(a) + a[4] * NS + a[5] > DAY_NS - 1, DAY_NS - 1, tod(a) + a[4] * NS + a[5])))))],
      bounds={**B_TIME, 5: (-999999999, 999999999)}),
    K("c08::k_time_wrapping_add_udur", pre=lambda a: And(time_ok(a), in_range(a[5], 0, 999999999)),
      claims=[("Time::wrapping_add/sub(std Duration) == (t +/- d) mod 24h",
               lambda a, o: And(o.is_some, time_is(o.some[0], (tod(a) + a[4] * NS + a[5]) % DAY_NS),
                                time_is(o.some[1], (tod(a) - a[4] * NS - a[5]) % DAY_NS)))],
      bounds={**B_TIME, 5: (0, 999999999)}),
    K("c08::k_date_add_ym", pre=lambda a: And(date_ok(a), in_range(a[4], 0, LIM["years"]), in_range(a[5], 0, LIM["months"])),
      claims=[("Date::checked_add(years, months): month arithmetic with the day clamped to the target month; Err iff year out of range",
               lambda a, o: And(o.is_some, opt_is(o.some, in_range(ref_add_months(a[0], a[1], a[2], sgn(a[3]) * a[4], sgn(a[3]) * a[5])[0], -9999, 9999),
                                                  lambda r: eq3(r.ints(), ref_add_months(a[0], a[1], a[2], sgn(a[3]) * a[4], sgn(a[3]) * a[5])))))],
      bounds={**B_DATE, 4: (0, LIM["years"]), 5: (0, LIM["months"])}, split=(0, 64), timeout=900, tier="deep"),
    K("c08::k_date_add_wd", pre=lambda a: And(date_ok(a), in_range(a[4], 0, LIM["weeks"]), in_range(a[5], 0, LIM["days"])),
      claims=[("Date::checked_add(weeks, days) == epoch day + 7w + d; Err iff outside -9999-01-01..=9999-12-31",
               lambda a, o: And(o.is_some, opt_is(o.some[0], in_range(o.some[1].i + sgn(a[3]) * (7 * a[4] + a[5]), MIN_DAY, MAX_DAY),
                                                  lambda r: And(ref_valid_date(*r[0].ints()), r[1].i == o.some[1].i + sgn(a[3]) * (7 * a[4] + a[5])))))],
      bounds={**B_DATE, 4: (0, LIM["weeks"]), 5: (0, LIM["days"])}, split=(0, 64), timeout=900, tier="deep"),
    K("c08::k_date_add_cal", pre=lambda a: And(date_ok(a), cal_ok(a, 3)),
      claims=[("Date::checked_add(years, months, weeks, days): months first with day clamp, then days on epoch days; Err iff out of range",
               date_add_cal_claim(1))],
      bounds=B_CAL, split=(0, 64), tier="deep", timeout=900),
    K("c08::k_date_sub_cal", pre=lambda a: And(date_ok(a), cal_ok(a, 3)),
      claims=[("Date::checked_sub == checked_add of the negated span", date_add_cal_claim(-1))],
      bounds=B_CAL, split=(0, 64), tier="deep", timeout=900),
    K("c08::k_dt_add_span", pre=lambda a: And(ref_valid_date(a[0], a[1], a[2]), ref_valid_time(a[3], a[4], a[5], a[6]), in_range(a[0], 2096, 2104),
                                            in_range(a[8], 0, 8), in_range(a[9], 0, 100), in_range(a[10], 0, 60), in_range(a[11], 0, 400),
                                            in_range(a[12], 0, 100000), in_range(a[13], 0, 6000000), in_range(a[14], 0, 400000000), in_range(a[15], 0, LIM["nanoseconds"])),
      claims=[("DateTime::checked_add(span) (date in 2096..2104, moderate unit magnitudes): years+months first with the day clamped, then weeks+days, then the time units carried across midnight in 24-hour days",
               dt_add_claim(1))],
      bounds={0: (2096, 2104), 1: (1, 12), 2: (1, 31), 3: (0, 23), 4: (0, 59), 5: (0, 59), 6: (0, 999999999), 8: (0, 8), 9: (0, 100), 10: (0, 60), 11: (0, 400),
              12: (0, 100000), 13: (0, 6000000), 14: (0, 400000000), 15: (0, LIM["nanoseconds"])}, timeout=900, tier="deep"),
    K("c08::k_dt_add_sdur", pre=lambda a: And(ref_valid_date(a[0], a[1], a[2]), ref_valid_time(a[3], a[4], a[5], a[6]), sdur_ok(a[7], a[8]), in_range(a[0], 2096, 2104)),
      claims=[("DateTime::checked_add(SignedDuration) (date in 2096..2104, every duration) == exact instant arithmetic; Err iff out of range; saturating_add clamps",
               dt_add_sdur_claim)],
      bounds={0: (2096, 2104), 1: (1, 12), 2: (1, 31), 3: (0, 23), 4: (0, 59), 5: (0, 59), 6: (0, 999999999), 8: (-999999999, 999999999)}, timeout=900, tier="deep"),
]
