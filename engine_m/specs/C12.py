"""C12 — Span and SignedDuration are faithful value types with enforced limits.
Reference: exact integer arithmetic on the signed nanosecond count T = secs*1e9 + nanos."""
from speclib import *

MODULES = ["c12"]
I64_MIN, I64_MAX = -(1 << 63), (1 << 63) - 1
SD_MIN = I64_MIN * NS - 999999999
SD_MAX = I64_MAX * NS + 999999999


def unit_kernel(name, lim):
    return K("c12::k_span_" + name, pre=lambda a: BoolVal(True),
             claims=[("Span::try_%s(v): Ok iff |v| <= %d; getter returns v; sign of the span = sign of v" % (name, lim),
                      lambda a, o: opt_is(o, in_range(a[0], -lim, lim),
                                          lambda r: And(r[0].i == a[0], r[1].i == If(a[0] > 0, 1, If(a[0] < 0, -1, 0)))))])


def absz(x):
    return If(x < 0, -x, x)


def sd_norm(s, n):
    return And(n > -NS, n < NS, Not(And(s > 0, n < 0)), Not(And(s < 0, n > 0)), in_range(s, I64_MIN, I64_MAX))


def sd_is(o, total):
    """o: Out of (secs, nanos): normal form denoting `total`"""
    s, n = o.ints()
    return And(s * NS + n == total, sd_norm(s, n))


def sd_total(a, k=0):
    return a[k] * NS + a[k + 1]


def sd_ok(a, k=0):
    return And(a[k + 1] > -NS, a[k + 1] < NS, Not(And(a[k] > 0, a[k + 1] < 0)), Not(And(a[k] < 0, a[k + 1] > 0)))


def fits(t):
    return in_range(t, SD_MIN, SD_MAX)


def tdiv(a, d):
    """truncating division of a by d (d != 0), mathematical integers"""
    q = absz(a) / absz(d)
    return If((a < 0) != (d < 0), -q, q)


def sat(t):
    return If(t > SD_MAX, SD_MAX, If(t < SD_MIN, SD_MIN, t))


def sign3(a, o):
    d, h, ns, d2 = a
    anyneg = Or(d < 0, h < 0, ns < 0)
    s1 = If(anyneg, -1, 1)
    first = o.some[0]
    second = o.some[1]
    z1 = And(d == 0, h == 0, ns == 0)
    c1 = And(first[0].i == s1 * absz(d), first[1].i == s1 * absz(h), first[2].i == s1 * absz(ns), first[3].i == If(z1, 0, s1))
    # after overwriting days: a negative new value makes everything negative; otherwise the sign is kept
    # (or recomputed from the new value when the span was zero / becomes zero)
    s2 = If(d2 < 0, -1, If(z1, 1, s1))
    z2 = And(d2 == 0, h == 0, ns == 0)
    c2 = And(absz(second[0].i) == absz(d2), absz(second[1].i) == absz(h), absz(second[2].i) == absz(ns),
             # all non-zero units share one sign, which is the span's sign
             Or(second[3].i == 0, And(second[0].i * second[3].i >= 0, second[1].i * second[3].i >= 0, second[2].i * second[3].i >= 0)),
             (second[3].i == 0) == z2,
             Implies(d2 < 0, second[3].i == -1))
    return And(o.is_some, c1, c2)


def mul_claim(names, lims):
    def claim(a, o):
        s = sgn(a[0])
        rhs = a[len(names) + 1]
        prods = [s * a[1 + i] * rhs for i in range(len(names))]
        ok = And([in_range(p, -l, l) for p, l in zip(prods, lims)])
        return And(o.is_some, opt_is(o.some, ok, lambda r: And([r[i].i == prods[i] for i in range(len(names))])))
    return claim


KERNELS = [unit_kernel(n, LIM[n]) for n in ["years", "months", "weeks", "days", "hours", "minutes", "seconds", "milliseconds", "microseconds", "nanoseconds"]] + [
    K("c12::k_span_sign3", pre=lambda a: And(in_range(a[0], -LIM["days"], LIM["days"]), in_range(a[1], -LIM["hours"], LIM["hours"]),
                                           in_range(a[2], -LIM["nanoseconds"], LIM["nanoseconds"]), in_range(a[3], -LIM["days"], LIM["days"])),
      claims=[("setter sequences: all non-zero units share one sign (any negative value makes the span negative); magnitudes preserved", sign3)]),
    K("c12::k_span_neg_abs", pre=lambda a: And(in_range(a[1], 0, LIM["days"]), in_range(a[2], 0, LIM["hours"]), in_range(a[3], 0, LIM["nanoseconds"])),
      claims=[("negate / abs / is_zero / is_negative / is_positive act unit by unit",
               lambda a, o: And(o.is_some,
                                o.some[0][0].i == -sgn(a[0]) * a[1], o.some[0][1].i == -sgn(a[0]) * a[2], o.some[0][2].i == -sgn(a[0]) * a[3],
                                o.some[1][0].i == a[1], o.some[1][1].i == a[2], o.some[1][2].i == a[3],
                                o.some[2].b == And(a[1] == 0, a[2] == 0, a[3] == 0),
                                o.some[3].b == And(a[0], Not(And(a[1] == 0, a[2] == 0, a[3] == 0))),
                                o.some[4].b == And(Not(a[0]), Not(And(a[1] == 0, a[2] == 0, a[3] == 0)))))]),
    K("c12::k_span_checked_mul", pre=lambda a: And(in_range(a[1], 0, LIM["months"]), in_range(a[2], 0, LIM["days"]), in_range(a[3], 0, LIM["hours"]),
                                                 in_range(a[4], 0, LIM["seconds"]), in_range(a[5], 0, LIM["nanoseconds"])),
      claims=[("Span::checked_mul multiplies unit by unit; Err exactly when some product exceeds its unit limit",
               mul_claim(["months", "days", "hours", "seconds", "nanoseconds"],
                         [LIM["months"], LIM["days"], LIM["hours"], LIM["seconds"], LIM["nanoseconds"]]))]),
    K("c12::k_span_checked_mul_small", pre=lambda a: And(in_range(a[1], 0, LIM["years"]), in_range(a[2], 0, LIM["weeks"]), in_range(a[3], 0, LIM["minutes"]),
                                                       in_range(a[4], 0, LIM["milliseconds"]), in_range(a[5], 0, LIM["microseconds"])),
      claims=[("Span::checked_mul (years, weeks, minutes, milliseconds, microseconds)",
               mul_claim(["years", "weeks", "minutes", "milliseconds", "microseconds"],
                         [LIM["years"], LIM["weeks"], LIM["minutes"], LIM["milliseconds"], LIM["microseconds"]]))]),
    K("c12::k_span_fieldwise_eq", pre=lambda a: And(in_range(a[0], -LIM["days"], LIM["days"]), in_range(a[1], -LIM["hours"], LIM["hours"]),
                                                  in_range(a[2], -LIM["days"], LIM["days"]), in_range(a[3], -LIM["hours"], LIM["hours"])),
      claims=[("fieldwise equality compares the denoted unit values",
               lambda a, o: And(o.is_some, o.some.b == And(
                   If(Or(a[0] < 0, a[1] < 0), -1, 1) * absz(a[0]) == If(Or(a[2] < 0, a[3] < 0), -1, 1) * absz(a[2]),
                   If(Or(a[0] < 0, a[1] < 0), -1, 1) * absz(a[1]) == If(Or(a[2] < 0, a[3] < 0), -1, 1) * absz(a[3]))))]),
    K("c12::k_sd_new", pre=lambda a: fits(a[0] * NS + a[1]) if False else And(in_range(a[0] + a[1] / NS + If(And(a[1] % NS != 0, a[1] < 0), 1, 0), I64_MIN, I64_MAX)),
      claims=[("SignedDuration::new(secs, nanos) == secs*1e9 + nanos in normal form (no panic when representable)",
               lambda a, o: And(sd_is(o[0], a[0] * NS + a[1]), o[1].i == a[0] * NS + a[1]))]),
    K("c12::k_sd_from_units", pre=lambda a: BoolVal(True),
      claims=[("from_secs/millis/micros/nanos denote v * unit",
               lambda a, o: And(sd_is(o[0], a[0] * NS), sd_is(o[1], a[0] * 1000000), sd_is(o[2], a[0] * 1000), sd_is(o[3], a[0])))]),
    K("c12::k_sd_from_hours", pre=lambda a: in_range(a[0] * 3600, I64_MIN, I64_MAX),
      claims=[("from_hours", lambda a, o: sd_is(o, a[0] * 3600 * NS))]),
    K("c12::k_sd_from_mins", pre=lambda a: in_range(a[0] * 60, I64_MIN, I64_MAX),
      claims=[("from_mins", lambda a, o: sd_is(o, a[0] * 60 * NS))]),
    K("c12::k_sd_views", pre=lambda a: sd_ok(a),
      claims=[("all views of a SignedDuration denote truncations of the same nanosecond count",
               lambda a, o: And(o.is_some, (lambda v, T: And(
                   v[0] == tdiv(T, NS), v[3] == T - tdiv(T, NS) * NS, v[2] == tdiv(T - tdiv(T, NS) * NS, 1000), v[1] == tdiv(T - tdiv(T, NS) * NS, 1000000),
                   v[4] == tdiv(T, 1000000), v[5] == tdiv(T, 1000), v[6] == T, v[7] == tdiv(T, 3600 * NS), v[8] == tdiv(T, 60 * NS),
                   v[9] == If(T > 0, 1, If(T < 0, -1, 0)), v[10] == (T == 0), v[11] == (T > 0), v[12] == (T < 0)))(o.some.ints(), sd_total(a))))]),
    K("c12::k_sd_add", pre=lambda a: And(sd_ok(a, 0), sd_ok(a, 2)),
      claims=[("checked_add/sub == exact sum, None iff unrepresentable; saturating clamps",
               lambda a, o: And(o.is_some,
                                opt_is(o.some[0], fits(sd_total(a, 0) + sd_total(a, 2)), lambda r: sd_is(r, sd_total(a, 0) + sd_total(a, 2))),
                                opt_is(o.some[1], fits(sd_total(a, 0) - sd_total(a, 2)), lambda r: sd_is(r, sd_total(a, 0) - sd_total(a, 2))),
                                sd_is(o.some[2], sat(sd_total(a, 0) + sd_total(a, 2))),
                                sd_is(o.some[3], sat(sd_total(a, 0) - sd_total(a, 2)))))]),
    K("c12::k_sd_mul", pre=lambda a: sd_ok(a),
      claims=[("checked_mul(i32) == exact product, None iff unrepresentable; saturating_mul clamps",
               lambda a, o: And(o.is_some,
                                opt_is(o.some[0], fits(sd_total(a) * a[2]), lambda r: sd_is(r, sd_total(a) * a[2])),
                                sd_is(o.some[1], sat(sd_total(a) * a[2]))))]),
    K("c12::k_sd_div", pre=lambda a: sd_ok(a), tier="deep", timeout=1200,
      claims=[("checked_div(i32) == exact quotient truncated toward zero; None iff divisor 0 or unrepresentable",
               lambda a, o: And(o.is_some, opt_is(o.some, And(a[2] != 0, fits(tdiv(sd_total(a), a[2]))), lambda r: sd_is(r, tdiv(sd_total(a), a[2])))))]),
    K("c12::k_sd_neg_abs", pre=lambda a: sd_ok(a),
      claims=[("checked_neg None iff unrepresentable; unsigned_abs exact",
               lambda a, o: And(o.is_some, opt_is(o.some[0], fits(-sd_total(a)), lambda r: sd_is(r, -sd_total(a))),
                                o.some[1][0].i * NS + o.some[1][1].i == absz(sd_total(a)), in_range(o.some[1][1].i, 0, 999999999)))]),
    K("c12::k_sd_abs", pre=lambda a: And(sd_ok(a), a[0] != I64_MIN),
      claims=[("abs (documented to panic only for secs == i64::MIN)", lambda a, o: And(o.is_some, sd_is(o.some, absz(sd_total(a)))))]),
    K("c12::k_sd_from_span", pre=lambda a: And([in_range(a[1 + i], 0, LIM[n]) for i, n in enumerate(["hours", "minutes", "seconds", "milliseconds", "microseconds", "nanoseconds"])]),
      claims=[("SignedDuration::try_from(Span with time units) == exact nanosecond total",
               lambda a, o: And(o.is_some, (lambda T: opt_is(o.some, fits(T), lambda r: sd_is(r, T)))(
                   sgn(a[0]) * (a[1] * 3600 * NS + a[2] * 60 * NS + a[3] * NS + a[4] * 1000000 + a[5] * 1000 + a[6]))))]),
    K("c12::k_span_from_sd", pre=lambda a: sd_ok(a),
      claims=[("Span::try_from(SignedDuration): Ok iff seconds within the span limit; units denote the same total",
               lambda a, o: And(o.is_some, opt_is(o.some, in_range(a[0], -LIM["seconds"], LIM["seconds"]),
                                                  lambda r: r[0].i * NS + r[1].i * 1000000 + r[2].i * 1000 + r[3].i == sd_total(a))))]),
    K("c12::k_sd_std", pre=lambda a: sd_ok(a),
      claims=[("std Duration::try_from(SignedDuration): Ok iff non-negative; exact",
               lambda a, o: And(o.is_some, opt_is(o.some, sd_total(a) >= 0, lambda r: And(r[0].i == a[0], r[1].i == a[1]))))]),
    K("c12::k_std_sd", pre=lambda a: in_range(a[1], 0, 999999999),
      claims=[("SignedDuration::try_from(std Duration): Ok iff secs <= i64::MAX; exact",
               lambda a, o: And(o.is_some, opt_is(o.some, a[0] <= I64_MAX, lambda r: And(r[0].i == a[0], r[1].i == a[1]))))]),
]
