"""C03 (POSIX rule part, engine M). The explicit-transition part is decided by engine K (engine_k/specs/C03.py)."""
from speclib import *

MODULES = ["c03"]
TS_MIN_NS = TS_MIN_S * NS


def ts_ok(s, ns):
    return And(in_range(s, TS_MIN_S, TS_MAX_S), ns > -NS, ns < NS, Not(And(s > 0, ns < 0)), Not(And(s < 0, ns > 0)), s * NS + ns >= TS_MIN_NS)


def day_ok(k, a, b, c):
    return And(in_range(k, 0, 2),
               Implies(k == 0, in_range(a, 1, 365)), Implies(k == 1, in_range(a, 0, 365)),
               Implies(k == 2, And(in_range(a, 1, 12), in_range(b, 1, 5), in_range(c, 0, 6))))


def rule_ok(a):
    return And(in_range(a[0], -89999, 89999), in_range(a[1], -89999, 89999),
               day_ok(a[2], a[3], a[4], a[5]), in_range(a[6], -604799, 604799),
               day_ok(a[7], a[8], a[9], a[10]), in_range(a[11], -604799, 604799))


def floor_sec(s, ns):
    return s - If(ns < 0, 1, 0)


def nth_sunday(y, month, n):
    """epoch day of the n-th Sunday of the month"""
    e1 = ref_epoch_day(y, month, 1)
    wd1 = ref_weekday_monday1(e1)
    return e1 + (7 - wd1) % 7 + 7 * (n - 1)


def us_start(y):      # second Sunday of March, 02:00 standard time (UTC-5)
    return nth_sunday(y, 3, 2) * 86400 + 7200 + 18000


def us_end(y):        # first Sunday of November, 02:00 daylight time (UTC-4)
    return nth_sunday(y, 11, 1) * 86400 + 7200 + 14400


def lhi_start(y):     # first Sunday of October 02:00 standard (UTC+10:30)
    return nth_sunday(y, 10, 1) * 86400 + 7200 - 37800


def lhi_end(y):       # first Sunday of April 02:00 daylight (UTC+11)
    return nth_sunday(y, 4, 1) * 86400 + 7200 - 39600


def us_claim(a, o):
    fs = floor_sec(a[0], a[1])
    y = o[1].i
    in_dst = And(us_start(y) <= fs, fs < us_end(y))
    off, ioff, isdst, abbr = o[0][0].i, o[0][1].i, o[0][2].b, o[0][3].b
    return And(off == If(in_dst, -14400, -18000), ioff == off, isdst == in_dst, abbr == in_dst)


def lhi_claim(a, o):
    fs = floor_sec(a[0], a[1])
    y = o[1].i
    # southern hemisphere: DST from October to April of the next year
    in_dst = Or(fs >= lhi_start(y), fs < lhi_end(y))
    off, ioff, isdst, abbr = o[0][0].i, o[0][1].i, o[0][2].b, o[0][3].b
    return And(off == If(in_dst, 39600, 37800), ioff == off, isdst == in_dst, abbr == in_dst)


YEAR_OK = lambda a: And(ts_ok(a[0], a[1]), in_range(a[0], -377000000000, 253000000000))
B_T = {0: (-377000000000, 253000000000), 1: (-999999999, 999999999)}
# quick tier: every instant of the years 1900..2100 (both sides of 1970); thorough: the whole range
WIN = (-2208988800, 4133980799)
WIN_OK = lambda a: And(ts_ok(a[0], a[1]), in_range(a[0], WIN[0], WIN[1]))
B_W = {0: WIN, 1: (-999999999, 999999999)}

KERNELS = [
    K("c03::k_posix_consistent", pre=lambda a: And(rule_ok(a), ts_ok(a[12], a[13])),
      claims=[("for every POSIX rule and instant: to_offset_info agrees with to_offset, the offset is the standard or the DST offset, and the DST flag / abbreviation say which",
               lambda a, o: And(o[1].i == o[0].i, Or(o[0].i == a[0], o[0].i == a[1]),
                                o[3].b == o[2].b, Implies(o[2].b, o[0].i == a[1]), Implies(Not(o[2].b), o[0].i == a[0])))],
      bounds={0: (-89999, 89999), 1: (-89999, 89999), 2: (0, 2), 3: (0, 365), 4: (1, 5), 5: (0, 6), 6: (-604799, 604799),
              7: (0, 2), 8: (0, 365), 9: (1, 5), 10: (0, 6), 11: (-604799, 604799), 12: (TS_MIN_S, TS_MAX_S), 13: (-999999999, 999999999)},
      timeout=1800, tier="deep"),
    K("c03::k_posix_us", pre=WIN_OK,
      claims=[("EST5EDT,M3.2.0,M11.1.0 (years 1900..2100): DST exactly from the 2nd Sunday of March 07:00:00Z to the 1st Sunday of November 06:00:00Z", us_claim)],
      bounds=B_W, split=(0, 8), timeout=200),
    K("c03::k_posix_lhi", pre=WIN_OK,
      claims=[("<+1030>-10:30<+11>-11,M10.1.0,M4.1.0 (years 1900..2100): half-hour DST across the new year", lhi_claim)],
      bounds=B_W, split=(0, 8), timeout=200),
    K("c03::k_posix_us", pre=YEAR_OK,
      claims=[("EST5EDT,M3.2.0,M11.1.0: DST exactly from the 2nd Sunday of March 07:00:00Z to the 1st Sunday of November 06:00:00Z (exact instants, both sides of 1970)", us_claim)],
      bounds=B_T, split=(0, 128), timeout=900, tier="deep"),
    K("c03::k_posix_lhi", pre=YEAR_OK,
      claims=[("<+1030>-10:30<+11>-11,M10.1.0,M4.1.0: half-hour DST across the new year", lhi_claim)],
      bounds=B_T, split=(0, 128), timeout=900, tier="deep"),
]
