"""C06 (fixed-offset zones only, engine M): Zoned arithmetic moves the instant exactly.

In a fixed-offset zone a civil day is exactly 24 hours, so this cannot distinguish "1 day" from
"24 hours"; what it decides is that the composition civil-add / re-resolve / instant-add is exact
and keeps the zone, for every instant, offset and span within the unit limits. Zones with
transitions are outside the claim (reachable by neither engine)."""
from speclib import *
import importlib.util, os
_p = os.path.join(os.path.dirname(os.path.abspath(__file__)), "C02.py")
_s = importlib.util.spec_from_file_location("c02spec", _p); c02 = importlib.util.module_from_spec(_s); _s.loader.exec_module(c02)

MODULES = ["c20"]
TS_MIN_NS, TS_MAX_NS = c02.TS_MIN_NS, c02.TS_MAX_NS


def res_is(o, total, off):
    """Option<((s, ns), offset)>: Some iff the instant is representable; exact; zone offset kept"""
    return opt_is(o, in_range(total, TS_MIN_NS, TS_MAX_NS),
                  lambda r: And(r[0][0].i * NS + r[0][1].i == total, c02.ts_norm(r[0][0].i, r[0][1].i), r[1].i == off))


def add_time_claim(a, o):
    T = a[0] * NS + a[1]
    mag = a[4] * HOUR_NS + a[5] * MIN_NS + a[6] * NS + a[7] * 1000000 + a[8] * 1000 + a[9]
    d = If(a[3], -mag, mag)
    return And(o.is_some, res_is(o.some[0], T + d, a[2]), res_is(o.some[1], T - d, a[2]))


def civil_in_range(T, off):
    """Zoned arithmetic goes through the civil datetime, which must itself be representable"""
    return in_range(T + off * NS, MIN_DAY * DAY_NS, (MAX_DAY + 1) * DAY_NS - 1)


W0 = 1708819200  # 2024-02-25T00:00:00Z
def split_claim(a, o):
    sg = If(a[0], -1, 1)
    t, c = o.some[0], o.some[1]
    tcal, ttime, tsig = t[0].ints(), t[1].ints(), t[2].i
    ccal, ctime, csig = c[0].ints(), c[1].ints(), c[2].i
    tz = And(a[3] == 0, a[4] == 0, a[5] == 0, a[6] == 0)
    cz = And(a[1] == 0, a[2] == 0)
    return And(o.is_some,
               And([x == 0 for x in tcal]), ttime[0] == sg * a[3], ttime[1] == 0, ttime[2] == 0, ttime[3] == sg * a[4], ttime[4] == sg * a[5], ttime[5] == sg * a[6],
               tsig == If(tz, 0, sg),
               And([x == 0 for x in ctime]), ccal[0] == 0, ccal[1] == sg * a[1], ccal[2] == 0, ccal[3] == sg * a[2],
               csig == If(cz, 0, sg))


B = {0: (TS_MIN_S, TS_MAX_S), 1: (-999999999, 999999999), 2: (-OFF_MAX, OFF_MAX)}
NAMES = ["hours", "minutes", "seconds", "milliseconds", "microseconds", "nanoseconds"]

KERNELS = [
    K("c20::k_zoned_fixed_add_time", pre=lambda a: And(c02.valid_ts(a[0], a[1]), c02.off_ok(a[2]), And([in_range(a[4 + i], 0, LIM[n]) for i, n in enumerate(NAMES)])),
      claims=[("Zoned(fixed zone) +/- a span of time units: the instant moves by exactly the span's nanoseconds, Err iff out of range, zone kept; sub == add of the negation", add_time_claim)],
      bounds={**B, **{4 + i: (0, LIM[n]) for i, n in enumerate(NAMES)}}, timeout=300),
    K("c20::k_zoned_fixed_add_sdur", pre=lambda a: And(c02.valid_ts(a[0], a[1]), c02.off_ok(a[2]), a[4] > -NS, a[4] < NS, Not(And(a[3] > 0, a[4] < 0)), Not(And(a[3] < 0, a[4] > 0))),
      claims=[("Zoned(fixed zone) + SignedDuration: the instant moves by exactly the duration",
               lambda a, o: And(o.is_some, res_is(o.some, a[0] * NS + a[1] + a[3] * NS + a[4], a[2])))],
      bounds={**B, 4: (-999999999, 999999999)}, timeout=300),
    K("c20::k_zoned_fixed_add_days", pre=lambda a: And(c02.valid_ts(a[0], a[1]), c02.off_ok(a[2]), in_range(a[4], 0, LIM["weeks"]), in_range(a[5], 0, LIM["days"])),
      claims=[("Zoned(fixed zone) + weeks/days: exactly 7*24h / 24h per unit when the civil result and the instant are in range",
               lambda a, o: And(o.is_some, (lambda T, d: Implies(And(in_range(T + d, TS_MIN_NS, TS_MAX_NS), civil_in_range(T + d, a[2])),
                                                              And(o.some.is_some, o.some.some[0][0].i * NS + o.some.some[0][1].i == T + d, o.some.some[1].i == a[2])))(
                   a[0] * NS + a[1], If(a[3], -1, 1) * (7 * a[4] + a[5]) * DAY_NS)))],
      bounds={**B, 4: (0, LIM["weeks"]), 5: (0, LIM["days"])}, split=(0, 128), timeout=900, tier="deep"),
    K("c20::k_span_split", pre=lambda a: And(in_range(a[1], 0, LIM["months"]), in_range(a[2], 0, LIM["days"]), in_range(a[3], 0, LIM["hours"]),
                                             in_range(a[4], 0, LIM["milliseconds"]), in_range(a[5], 0, LIM["microseconds"]), in_range(a[6], 0, LIM["nanoseconds"])),
      claims=[("Span::only_time / Span::only_calendar (the split Zoned::checked_add applies): each keeps exactly its own units with their sign, zeroes the others, "
               "and has sign 0 iff its part is zero", split_claim)],
      bounds={1: (0, LIM["months"]), 2: (0, LIM["days"]), 3: (0, LIM["hours"]), 4: (0, LIM["milliseconds"]), 5: (0, LIM["microseconds"]), 6: (0, LIM["nanoseconds"])}),
    K("c20::k_zoned_fixed_add_mixed", pre=lambda a: And(c02.valid_ts(a[0], a[1]), c02.off_ok(a[2]), in_range(a[0], W0, W0 + 10 * 86400 - 1),
                                                        in_range(a[4], 0, 3), in_range(a[5], 0, 30), in_range(a[6], 0, 10000000000), in_range(a[7], 0, 5000000000)),
      claims=[("Zoned(fixed zone) + span mixing days with hours / microseconds / nanoseconds [instant in 2024-02-25..2024-03-05, every offset, days <= 3, hours <= 30, "
               "microseconds <= 1e10, nanoseconds <= 5e9]: the instant moves by exactly days*24 h + the time units, zone kept",
               lambda a, o: And(o.is_some, (lambda T, d: And(o.some.is_some, o.some.some[0][0].i * NS + o.some.some[0][1].i == T + d, o.some.some[1].i == a[2]))(
                   a[0] * NS + a[1], If(a[3], -1, 1) * (a[4] * DAY_NS + a[5] * HOUR_NS + a[6] * 1000 + a[7]))))],
      bounds={0: (W0, W0 + 10 * 86400 - 1), 1: (-999999999, 999999999), 2: (-OFF_MAX, OFF_MAX), 4: (0, 3), 5: (0, 30), 6: (0, 10000000000), 7: (0, 5000000000)},
      split=[(0, 10), (4, 4)], timeout=900, tier="deep"),
    K("c20::k_zoned_fixed_start_of_day", pre=lambda a: And(c02.valid_ts(a[0], a[1]), c02.off_ok(a[2])),
      claims=[("start_of_day(fixed zone) == the instant minus the civil time of day (civil midnight), when representable",
               lambda a, o: And(o.is_some, Implies(o.some.is_some, And(
                   o.some.some[0][0].i * NS + o.some.some[0][1].i == a[0] * NS + a[1] - nanos_of_day(*o.some.some[1].ints()),
                   o.some.some[2].i == a[2]))))],
      bounds=B, split=(0, 128), timeout=900, tier="deep"),
]
