"""C11 — span rounding, balancing and comparison conserve the denoted duration.
Claimed part: the *invariant* path (no reference point, or the days-are-24-hours marker):
spans of uniform units behave as exact nanosecond counts; calendar units are refused.
Reference: exact integer rounding of the nanosecond total T to a multiple of I = increment*unit,
then the unique balanced, sign-consistent decomposition with nothing above the largest unit."""
from speclib import *
import importlib.util as _u
import os as _os

_s = _u.spec_from_file_location("c10spec_for_c11", _os.path.join(_os.path.dirname(__file__), "C10.py"))
_c10 = _u.module_from_spec(_s)
_s.loader.exec_module(_c10)
PAIRS, NP, ref_round = _c10.PAIRS, _c10.NP, _c10.ref_round

MODULES = ["c11"]
# unit index (common.rs::unit_of) -> nanoseconds
UNIT_NS = [1, 1000, 1000000, NS, 60 * NS, 3600 * NS, 86400 * NS, 7 * 86400 * NS]
UNIT_LIM = [LIM["nanoseconds"], LIM["microseconds"], LIM["milliseconds"], LIM["seconds"], LIM["minutes"], LIM["hours"], LIM["days"], LIM["weeks"]]
CARRY = [1000, 1000, 1000, 60, 60, 24, 7]        # units of u per unit of u+1
SU = {1: 0, 1000: 1, 1000000: 2, NS: 3, 60 * NS: 4, 3600 * NS: 5}
TIME_NAMES = ["hours", "minutes", "seconds", "milliseconds", "microseconds", "nanoseconds"]


def absz(x):
    return If(x < 0, -x, x)


def tdiv(a, d):
    q = absz(a) / d
    return If(a < 0, -q, q)


def fld(r, u):
    """field of unit index u (0 = ns .. 9 = year) in SpanOut flattened as y,mo,w,d,h,mi,s,ms,us,ns,sign"""
    return r[9 - u]


def balanced(r, R, L, top=7):
    """r: list of 11 ints. The unique balanced sign-consistent decomposition of R with largest unit L (python int)."""
    sg = If(R > 0, 1, If(R < 0, -1, 0))
    cs = [sum(fld(r, u) * UNIT_NS[u] for u in range(0, top + 1)) == R, r[10] == sg, r[0] == 0, r[1] == 0]
    for u in range(0, 8):
        if u > L:
            cs.append(fld(r, u) == 0)
        else:
            cs.append(fld(r, u) * sg >= 0)
            if u < L:
                cs.append(absz(fld(r, u)) < CARRY[u])
    return And(cs)


def fits(R, L):
    return absz(tdiv(R, UNIT_NS[L])) <= UNIT_LIM[L]


def per_L(Lz, lo, hi, f):
    return And([Implies(Lz == l, f(l)) for l in range(lo, hi + 1)])


def total_time(a, k=0):
    return sgn(a[k]) * (a[k + 1] * 3600 * NS + a[k + 2] * 60 * NS + a[k + 3] * NS + a[k + 4] * 1000000 + a[k + 5] * 1000 + a[k + 6])


def existing_largest(vals):
    """vals: [(unit index, magnitude term)] -> largest unit with a non-zero value (0 when all zero)"""
    e = IntVal(0)
    for u, v in sorted(vals):
        e = If(v != 0, u, e)
    return e


def zmax(a, b):
    return If(a >= b, a, b)


def time_pre(a, k=1):
    return And([in_range(a[k + i], 0, LIM[n]) for i, n in enumerate(TIME_NAMES)])


def round_claims(T_of, ex_of, ui, lg, mode, top, refused_of):
    """three claims (Err-iff / denotation / shape) over kernels with inputs a and `Option<Option<SpanOut>>` output"""
    def mk(which):
        def claim(a, o):
            T = T_of(a)

            def f(I, k):
                su = SU[PAIRS[k][0]]
                R = ref_round(T, I, a[mode])
                Lz = If(a[lg] == 10, zmax(su, ex_of(a)), a[lg])
                refused = refused_of(a[lg], su)

                def perL(L):
                    if which == "err":
                        return o.some.is_some == fits(R, L)
                    if not o.some.has_variant("Some"):
                        return BoolVal(True)
                    r = o.some.some.ints()
                    tot = sum(fld(r, u) * UNIT_NS[u] for u in range(8))
                    if which == "sum":
                        return Implies(o.some.is_some, tot == R)
                    return Implies(o.some.is_some, balanced(r, tot, L))
                return And(Implies(refused, o.some.is_none), Implies(Not(refused), per_L(Lz, su, top, perL)))
            return And(o.is_some, _c10.per_pair(a[ui], f))
        return claim
    return mk


def T_sn(a):
    return sgn(a[0]) * (a[1] * NS + a[2])


def T_dn(a):
    return sgn(a[0]) * (a[1] * UNIT_NS[6] + a[2])


_inv = round_claims(T_sn, lambda a: If(a[1] != 0, 3, 0), 3, 4, 5, 5, lambda lg, su: Or(lg < su, And(lg >= 6, lg <= 9)))
_24h = round_claims(T_dn, lambda a: If(a[1] != 0, 6, 0), 3, 4, 5, 7, lambda lg, su: Or(lg < su, lg >= 8))


def balance_claims(T_of, lg_idx, top, label):
    def mk(which):
        def claim(a, o):
            T, lg = T_of(a), a[lg_idx]

            def perL(L):
                if which == "err":
                    return o.some.is_some == fits(T, L)
                if not o.some.has_variant("Some"):
                    return BoolVal(True)
                r = o.some.some.ints()
                tot = sum(fld(r, u) * UNIT_NS[u] for u in range(8))
                if which == "sum":
                    return Implies(o.some.is_some, tot == T)
                return Implies(o.some.is_some, balanced(r, tot, L))
            return And(o.is_some, Implies(lg > top, o.some.is_none), per_L(lg, 0, top, perL))
        return claim
    return [(label + " [Err iff the largest unit exceeds its limit]", mk("err")), (label + " [the nanosecond total is unchanged]", mk("sum")),
            (label + " [balanced, sign-consistent, nothing above the largest unit]", mk("shape"))]


def balance_inv_claim(a, o):
    T = total_time(a)
    lg = a[7]
    return And(o.is_some, Implies(lg >= 6, o.some.is_none),
               per_L(lg, 0, 5, lambda L: opt_is(o.some, fits(T, L), lambda r: balanced(r.ints(), T, L))))


def T_24(a):
    return sgn(a[0]) * (a[1] * UNIT_NS[7] + a[2] * UNIT_NS[6] + a[3] * UNIT_NS[5] + a[4] * UNIT_NS[4] + a[5])


def round_24h_day_claim(a, o):
    """smallest = largest = day (or week), any increment: a non-positive increment must be refused without panicking;
    otherwise the result is the rounded total expressed in that unit alone"""
    T = T_dn(a)
    inc, mode = a[4], a[5]

    def f(L):
        I = inc * UNIT_NS[L]
        R = ref_round(T, I, mode)
        ok = absz(tdiv(R, UNIT_NS[L])) <= UNIT_LIM[L]
        return Implies(inc > 0, opt_is(o.some, ok, lambda r: And(fld(r.ints(), L) * UNIT_NS[L] == R,
                                                                 And([fld(r.ints(), u) == 0 for u in range(10) if u != L]))))
    return And(o.is_some, Implies(inc <= 0, o.some.is_none), If(a[3], f(7), f(6)))


def needs_ref_claim(a, o):
    y, mo, w, d, sm, lg = a[1], a[2], a[3], a[4], a[5], a[6]
    anycal = Or(y != 0, mo != 0, w != 0, d != 0)
    return And(o.is_some,
               Implies(Or(anycal, sm >= 6, And(lg >= 6, lg <= 9)), Not(o.some[0].b)),
               Implies(anycal, Not(o.some[1].b)))


def compare_claim(a, o):
    T1 = sgn(a[0]) * (a[1] * 3600 * NS + a[2] * 60 * NS + a[3] * NS + a[4])
    T2 = sgn(a[5]) * (a[6] * 3600 * NS + a[7] * 60 * NS + a[8] * NS + a[9])
    return And(o.is_some, o.some.is_some, o.some.some.i == If(T1 < T2, -1, If(T1 > T2, 1, 0)))


B_TIME = {1 + i: (0, LIM[n]) for i, n in enumerate(TIME_NAMES)}
CMP_NAMES = ["hours", "minutes", "seconds", "nanoseconds"]

def round_24h_day_cheap(a, o):
    return And(o.is_some, Implies(a[4] <= 0, o.some.is_none))


B_24 = {1: (0, LIM["weeks"]), 2: (0, LIM["days"]), 3: (0, LIM["hours"]), 4: (0, LIM["minutes"]), 5: (0, LIM["nanoseconds"])}
LAB = ("Span::round %s: the result denotes exactly round_mode(T, increment*unit) (T = the span's nanosecond total%s), has nothing above the "
       "largest unit, every lower unit below its carry, one sign; Err iff largest < smallest, a calendar unit the path does not permit, or the "
       "largest unit exceeds its limit")

KERNELS = [
    K("c11::k_span_round_inv", pre=lambda a: And(in_range(a[1], 0, 1000000), in_range(a[2], 0, 10000000000), in_range(a[3], 0, NP - 1),
                                                 Or(a[4] == 3, a[4] == 5, a[4] == 10), in_range(a[5], 0, 8)),
      claims=[(LAB % ("without a reference", "") + " [Err-iff; seconds <= 1e6, nanoseconds <= 1e10, largest in second, hour, unset]", _inv("err")),
              (LAB % ("without a reference", "") + " [denotation; same bounds]", _inv("sum")),
              (LAB % ("without a reference", "") + " [shape; same bounds]", _inv("shape"))],
      bounds={1: (0, 1000000), 2: (0, 10000000000), 3: (0, NP - 1), 4: (3, 10), 5: (0, 8)}, split=(3, NP), timeout=200),
    K("c11::k_span_round_inv", pre=lambda a: And(in_range(a[1], 0, LIM["seconds"]), in_range(a[2], 0, LIM["nanoseconds"]), in_range(a[3], 0, NP - 1),
                                                 Or(in_range(a[4], 0, 9), a[4] == 10), in_range(a[5], 0, 8)),
      claims=[(LAB % ("without a reference", "") + " [Err-iff]", _inv("err")), (LAB % ("without a reference", "") + " [denotation]", _inv("sum")),
              (LAB % ("without a reference", "") + " [shape]", _inv("shape"))],
      bounds={1: (0, LIM["seconds"]), 2: (0, LIM["nanoseconds"]), 3: (0, NP - 1), 4: (0, 10), 5: (0, 8)}, split=[(3, NP), (4, 11)], timeout=900, tier="deep"),
    K("c11::k_span_balance_inv", pre=lambda a: And(time_pre(a), in_range(a[7], 0, 9)),
      claims=balance_claims(total_time, 7, 5, "Span::round(largest = L) without a reference re-balances hours..nanoseconds (all six units symbolic up to their limits)")[1:],
      bounds={**B_TIME, 7: (0, 9)}, split=(7, 10), timeout=300),
    K("c11::k_span_balance_inv_err", pre=lambda a: And(in_range(a[1], 0, LIM["hours"]), in_range(a[2], 0, LIM["seconds"]), in_range(a[3], 0, LIM["nanoseconds"]), in_range(a[4], 0, 9)),
      claims=balance_claims(lambda a: sgn(a[0]) * (a[1] * 3600 * NS + a[2] * NS + a[3]), 4, 5,
                            "Span::round(largest = L) without a reference, span of hours + seconds + nanoseconds up to their limits")[:1],
      bounds={1: (0, LIM["hours"]), 2: (0, LIM["seconds"]), 3: (0, LIM["nanoseconds"]), 4: (0, 9)}, split=(4, 10), timeout=300),
    K("c11::k_span_balance_24h", pre=lambda a: And([in_range(a[k], *B_24[k]) for k in B_24] + [in_range(a[6], 0, 9)]),
      claims=balance_claims(T_24, 6, 7, "Span::round(largest = L) with days_are_24_hours re-balances weeks/days/hours/minutes/nanoseconds with weeks = 7*24 h and days = 24 h; years/months refused")[1:],
      bounds={**B_24, 6: (0, 9)}, split=(6, 10), timeout=300),
    K("c11::k_span_balance_24h_err", pre=lambda a: And(in_range(a[1], 0, LIM["weeks"]), a[2] == 0, in_range(a[3], 0, LIM["nanoseconds"]), in_range(a[4], 0, 9)),
      claims=balance_claims(lambda a: sgn(a[0]) * (a[1] * UNIT_NS[7] + a[2] * UNIT_NS[5] + a[3]), 4, 7,
                            "Span::round(largest = L) with days_are_24_hours, span of weeks + nanoseconds up to their limits")[:1],
      bounds={1: (0, LIM["weeks"]), 2: (0, 0), 3: (0, LIM["nanoseconds"]), 4: (0, 9)}, split=(4, 10), timeout=300),
    K("c11::k_span_round_24h", pre=lambda a: And(in_range(a[1], 0, 10), in_range(a[2], 0, 10000000000), in_range(a[3], 11, NP - 1),
                                                 Or(a[4] == 5, a[4] == 6, a[4] == 7), in_range(a[5], 0, 8)),
      claims=[(LAB % ("with days_are_24_hours", ", days = 24 h") + " [Err-iff; days <= 10, nanoseconds <= 1e10, the 9 pairs with unit >= second, largest in hour, day, week]", _24h("err")),
              (LAB % ("with days_are_24_hours", ", days = 24 h") + " [denotation; same bounds]", _24h("sum")),
              (LAB % ("with days_are_24_hours", ", days = 24 h") + " [shape; same bounds]", _24h("shape"))],
      bounds={1: (0, 10), 2: (0, 10000000000), 3: (11, NP - 1), 4: (5, 7), 5: (0, 8)}, split=[(3, 9), (4, 3)], timeout=400),
    K("c11::k_span_round_24h", pre=lambda a: And(in_range(a[1], 0, LIM["days"]), in_range(a[2], 0, LIM["nanoseconds"]), in_range(a[3], 0, NP - 1),
                                                 in_range(a[4], 0, 9), in_range(a[5], 0, 8)),
      claims=[(LAB % ("with days_are_24_hours", ", days = 24 h") + " [Err-iff]", _24h("err")), (LAB % ("with days_are_24_hours", ", days = 24 h") + " [denotation]", _24h("sum")),
              (LAB % ("with days_are_24_hours", ", days = 24 h") + " [shape]", _24h("shape"))],
      bounds={1: (0, LIM["days"]), 2: (0, LIM["nanoseconds"]), 3: (0, NP - 1), 4: (0, 9), 5: (0, 8)}, split=[(3, NP), (4, 10)], timeout=900, tier="deep"),
    K("c11::k_span_round_24h_day", pre=lambda a: And(in_range(a[1], 0, LIM["days"]), in_range(a[2], 0, LIM["nanoseconds"]), in_range(a[4], -1000, 1000), in_range(a[5], 0, 8)),
      claims=[("Span::round(smallest = largest = day | week, increment in -1000..1000, days_are_24_hours): never panics; a non-positive increment is refused", round_24h_day_cheap)],
      bounds={1: (0, LIM["days"]), 2: (0, LIM["nanoseconds"]), 4: (-1000, 1000), 5: (0, 8)}, timeout=300),
    K("c11::k_span_round_24h_day", pre=lambda a: And(in_range(a[1], 0, LIM["days"]), in_range(a[2], 0, LIM["nanoseconds"]), in_range(a[4], -3, 12), in_range(a[5], 0, 8)),
      claims=[("Span::round(smallest = largest = day | week, increment in -3..12, days_are_24_hours): never panics, a non-positive increment is refused, "
               "otherwise the rounded total in that unit", round_24h_day_claim)],
      bounds={1: (0, LIM["days"]), 2: (0, LIM["nanoseconds"]), 4: (-3, 12), 5: (0, 8)}, split=(4, 16), timeout=900, tier="deep"),
    K("c11::k_span_round_needs_ref", pre=lambda a: And(in_range(a[1], 0, LIM["years"]), in_range(a[2], 0, LIM["months"]), in_range(a[3], 0, LIM["weeks"]),
                                                       in_range(a[4], 0, LIM["days"]), in_range(a[5], 0, 9), Or(in_range(a[6], 0, 9), a[6] == 10)),
      claims=[("without a reference, round and compare refuse calendar units (in the span or in the options)", needs_ref_claim)],
      bounds={1: (0, LIM["years"]), 2: (0, LIM["months"]), 3: (0, LIM["weeks"]), 4: (0, LIM["days"]), 5: (0, 9), 6: (0, 10)}),
    K("c11::k_span_compare_inv", pre=lambda a: And([in_range(a[1 + i], 0, LIM[n]) for i, n in enumerate(CMP_NAMES)] + [in_range(a[6 + i], 0, LIM[n]) for i, n in enumerate(CMP_NAMES)]),
      claims=[("Span::compare without a reference orders spans of uniform units as their exact nanosecond totals", compare_claim)],
      bounds={**{1 + i: (0, LIM[n]) for i, n in enumerate(CMP_NAMES)}, **{6 + i: (0, LIM[n]) for i, n in enumerate(CMP_NAMES)}}),
]
