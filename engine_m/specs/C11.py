"""C11 — span rounding, balancing and comparison conserve the denoted duration.
Claimed part: the *invariant* path (no reference point, or the days-are-24-hours marker):
spans of uniform units behave as exact nanosecond counts; calendar units are refused.
Reference: exact integer rounding of the nanosecond total T to a multiple of I = increment*unit,
then the unique balanced, sign-consistent decomposition with nothing above the largest unit."""
from speclib import *
import importlib.util as _u
import os as _os

_s = _u.spec_from_file_location("c10spec_for_c11", _os.path.join(_os.path.dirname(__file__), "C10.py"))
_c10 = _u.module_from_spec(_s)
_s.loader.exec_module(_c10)
PAIRS, NP, ref_round = _c10.PAIRS, _c10.NP, _c10.ref_round

MODULES = ["c11"]
# unit index (common.rs::unit_of) -> nanoseconds
UNIT_NS = [1, 1000, 1000000, NS, 60 * NS, 3600 * NS, 86400 * NS, 7 * 86400 * NS]
UNIT_LIM = [LIM["nanoseconds"], LIM["microseconds"], LIM["milliseconds"], LIM["seconds"], LIM["minutes"], LIM["hours"], LIM["days"], LIM["weeks"]]
CARRY = [1000, 1000, 1000, 60, 60, 24, 7]        # units of u per unit of u+1
SU = {1: 0, 1000: 1, 1000000: 2, NS: 3, 60 * NS: 4, 3600 * NS: 5}
TIME_NAMES = ["hours", "minutes", "seconds", "milliseconds", "microseconds", "nanoseconds"]


def absz(x):
    return If(x < 0, -x, x)


def tdiv(a, d):
    q = absz(a) / d
    return If(a < 0, -q, q)


def fld(r, u):
    """field of unit index u (0 = ns .. 9 = year) in SpanOut flattened as y,mo,w,d,h,mi,s,ms,us,ns,sign"""
    return r[9 - u]


def balanced(r, R, L, top=7):
    """r: list of 11 ints. The unique balanced sign-consistent decomposition of R with largest unit L (python int)."""
    sg = If(R > 0, 1, If(R < 0, -1, 0))
    cs = [sum(fld(r, u) * UNIT_NS[u] for u in range(0, top + 1)) == R, r[10] == sg, r[0] == 0, r[1] == 0]
    for u in range(0, 8):
        if u > L:
            cs.append(fld(r, u) == 0)
        else:
            cs.append(fld(r, u) * sg >= 0)
            if u < L:
                cs.append(absz(fld(r, u)) < CARRY[u])
    return And(cs)


def fits(R, L):
    return absz(tdiv(R, UNIT_NS[L])) <= UNIT_LIM[L]


def per_L(Lz, lo, hi, f):
    return And([Implies(Lz == l, f(l)) for l in range(lo, hi + 1)])


def total_time(a, k=0):
    return sgn(a[k]) * (a[k + 1] * 3600 * NS + a[k + 2] * 60 * NS + a[k + 3] * NS + a[k + 4] * 1000000 + a[k + 5] * 1000 + a[k + 6])


def existing_largest(vals):
    """vals: [(unit index, magnitude term)] -> largest unit with a non-zero value (0 when all zero)"""
    e = IntVal(0)
    for u, v in sorted(vals):
        e = If(v != 0, u, e)
    return e


def zmax(a, b):
    return If(a >= b, a, b)


def time_pre(a, k=1):
    return And([in_range(a[k + i], 0, LIM[n]) for i, n in enumerate(TIME_NAMES)])


def round_inv_claim(a, o):
    T = total_time(a)
    ex = existing_largest([(5, a[1]), (4, a[2]), (3, a[3]), (2, a[4]), (1, a[5]), (0, a[6])])
    lg, mode = a[8], a[9]

    def f(I, k):
        su = SU[PAIRS[k][0]]
        R = ref_round(T, I, mode)
        Lz = If(lg == 10, zmax(su, ex), lg)
        refused = Or(lg < su, And(lg >= 6, lg <= 9))
        return And(Implies(refused, o.some.is_none),
                   Implies(Not(refused), per_L(Lz, su, 5, lambda L: opt_is(o.some, fits(R, L), lambda r: balanced(r.ints(), R, L)))))
    return And(o.is_some, _c10.per_pair(a[7], f))


def balance_inv_claim(a, o):
    T = total_time(a)
    ex = existing_largest([(5, a[1]), (4, a[2]), (3, a[3]), (2, a[4]), (1, a[5]), (0, a[6])])
    lg = a[7]
    return And(o.is_some, Implies(lg >= 6, o.some.is_none),
               per_L(lg, 0, 5, lambda L: opt_is(o.some, fits(T, L), lambda r: balanced(r.ints(), T, L))))


def round_24h_claim(a, o):
    T = sgn(a[0]) * (a[1] * UNIT_NS[7] + a[2] * UNIT_NS[6] + a[3] * UNIT_NS[5] + a[4] * UNIT_NS[4] + a[5])
    lg, mode = a[7], a[8]

    def f(I, k):
        su = SU[PAIRS[k][0]]
        R = ref_round(T, I, mode)
        refused = Or(lg < su, lg >= 8)
        return And(Implies(refused, o.some.is_none),
                   Implies(Not(refused), per_L(lg, su, 7, lambda L: opt_is(o.some, fits(R, L), lambda r: balanced(r.ints(), R, L)))))
    return And(o.is_some, _c10.per_pair(a[6], f))


def needs_ref_claim(a, o):
    y, mo, w, d, sm, lg = a[1], a[2], a[3], a[4], a[5], a[6]
    anycal = Or(y != 0, mo != 0, w != 0, d != 0)
    return And(o.is_some,
               Implies(Or(anycal, sm >= 6, And(lg >= 6, lg <= 9)), Not(o.some[0].b)),
               Implies(anycal, Not(o.some[1].b)))


def compare_claim(a, o):
    T1 = sgn(a[0]) * (a[1] * 3600 * NS + a[2] * 60 * NS + a[3] * NS + a[4])
    T2 = sgn(a[5]) * (a[6] * 3600 * NS + a[7] * 60 * NS + a[8] * NS + a[9])
    return And(o.is_some, o.some.is_some, o.some.some.i == If(T1 < T2, -1, If(T1 > T2, 1, 0)))


B_TIME = {1 + i: (0, LIM[n]) for i, n in enumerate(TIME_NAMES)}
CMP_NAMES = ["hours", "minutes", "seconds", "nanoseconds"]

KERNELS = [
    K("c11::k_span_round_inv", pre=lambda a: And(time_pre(a), in_range(a[7], 0, NP - 1), Or(in_range(a[8], 0, 9), a[8] == 10), in_range(a[9], 0, 8)),
      claims=[("Span::round without a reference (units <= hours): result = exact rounding of the nanosecond total to a multiple of increment*unit, "
               "balanced up to the largest unit, sign-consistent; Err iff largest < smallest, a calendar largest unit, or the largest unit overflows its limit",
               round_inv_claim)],
      bounds={**B_TIME, 7: (0, NP - 1), 8: (0, 10), 9: (0, 8)}, split=[(7, NP), (8, 11)], timeout=300),
    K("c11::k_span_balance_inv", pre=lambda a: And(time_pre(a), in_range(a[7], 0, 9)),
      claims=[("Span::round(largest = L) without a reference re-balances without changing the nanosecond total", balance_inv_claim)],
      bounds={**B_TIME, 7: (0, 9)}, split=(7, 10), timeout=300),
    K("c11::k_span_round_24h", pre=lambda a: And(in_range(a[1], 0, LIM["weeks"]), in_range(a[2], 0, LIM["days"]), in_range(a[3], 0, LIM["hours"]),
                                                 in_range(a[4], 0, LIM["minutes"]), in_range(a[5], 0, LIM["nanoseconds"]),
                                                 in_range(a[6], 0, NP - 1), in_range(a[7], 0, 9), in_range(a[8], 0, 8)),
      claims=[("Span::round with days_are_24_hours: weeks = 7*24 h, days = 24 h; same rounding and balancing law up to weeks; years/months refused",
               round_24h_claim)],
      bounds={1: (0, LIM["weeks"]), 2: (0, LIM["days"]), 3: (0, LIM["hours"]), 4: (0, LIM["minutes"]), 5: (0, LIM["nanoseconds"]),
              6: (0, NP - 1), 7: (0, 9), 8: (0, 8)}, split=[(6, NP), (7, 10)], timeout=300),
    K("c11::k_span_round_needs_ref", pre=lambda a: And(in_range(a[1], 0, LIM["years"]), in_range(a[2], 0, LIM["months"]), in_range(a[3], 0, LIM["weeks"]),
                                                       in_range(a[4], 0, LIM["days"]), in_range(a[5], 0, 9), Or(in_range(a[6], 0, 9), a[6] == 10)),
      claims=[("without a reference, round and compare refuse calendar units (in the span or in the options)", needs_ref_claim)],
      bounds={1: (0, LIM["years"]), 2: (0, LIM["months"]), 3: (0, LIM["weeks"]), 4: (0, LIM["days"]), 5: (0, 9), 6: (0, 10)}),
    K("c11::k_span_compare_inv", pre=lambda a: And([in_range(a[1 + i], 0, LIM[n]) for i, n in enumerate(CMP_NAMES)] + [in_range(a[6 + i], 0, LIM[n]) for i, n in enumerate(CMP_NAMES)]),
      claims=[("Span::compare without a reference orders spans of uniform units as their exact nanosecond totals", compare_claim)],
      bounds={**{1 + i: (0, LIM[n]) for i, n in enumerate(CMP_NAMES)}, **{6 + i: (0, LIM[n]) for i, n in enumerate(CMP_NAMES)}}),
]
