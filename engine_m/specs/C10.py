"""C10 — rounding a datetime yields the correct multiple of the increment for every mode.
Reference: exact integer rounding of the nanosecond count T to a multiple of I = increment*unit."""
from speclib import *

MODULES = ["c10"]
US, MS, SEC, MINUTE, HOUR = 1000, 1000000, NS, 60 * NS, 3600 * NS
# must mirror common.rs::unit_inc  (index -> (unit in ns, increment))
PAIRS = [(1, 1), (1, 5), (1, 8), (1, 125), (1, 500), (US, 1), (US, 25), (US, 200), (MS, 1), (MS, 4), (MS, 250),
         (SEC, 1), (SEC, 15), (SEC, 30), (MINUTE, 1), (MINUTE, 12), (MINUTE, 20), (HOUR, 1), (HOUR, 3), (HOUR, 12)]
NP = len(PAIRS)
TS_MIN_NS = TS_MIN_S * NS
TS_MAX_NS = TS_MAX_S * NS + 999999999
I64_MIN, I64_MAX = -(1 << 63), (1 << 63) - 1


def ref_round(T, I, mode):
    """mode: z3 Int 0..8 in the order of common.rs::mode_of"""
    lo = T - T % I
    hi = lo + I
    exact = T % I == 0
    dlo, dhi = T - lo, hi - T
    away = If(T >= 0, hi, lo)
    toward = If(T >= 0, lo, hi)
    even = If((lo / I) % 2 == 0, lo, hi)

    def nearest(tie):
        return If(dlo < dhi, lo, If(dlo > dhi, hi, tie))
    r = If(mode == 0, hi, If(mode == 1, lo, If(mode == 2, away, If(mode == 3, toward,
        If(mode == 4, nearest(hi), If(mode == 5, nearest(lo), If(mode == 6, nearest(away),
        If(mode == 7, nearest(toward), nearest(even)))))))))
    return If(exact, T, r)


def per_pair(ui, f):
    """conjunction over the concrete (unit, increment) pairs: ui == k  ->  f(I_k, k)"""
    return And([Implies(ui == k, f(u * inc, k)) for k, (u, inc) in enumerate(PAIRS)])


def ts_ok(a):
    return And(in_range(a[0], TS_MIN_S, TS_MAX_S), a[1] > -NS, a[1] < NS, Not(And(a[0] > 0, a[1] < 0)), Not(And(a[0] < 0, a[1] > 0)),
               a[0] * NS + a[1] >= TS_MIN_NS)


def ts_claim(a, o):
    T = a[0] * NS + a[1]

    def f(I, k):
        R = ref_round(T, I, a[3])
        ok = in_range(R, TS_MIN_NS, TS_MAX_NS)
        return opt_is(o.some, ok, lambda r: And(r[0].i * NS + r[1].i == R, r[2].i == R))
    return And(o.is_some, per_pair(a[2], f))


def sd_claim(a, o):
    T = a[0] * NS + a[1]

    def f(I, k):
        R = ref_round(T, I, a[3])
        ok = in_range(If(R >= 0, R / NS, -((-R) / NS)), I64_MIN, I64_MAX)
        return opt_is(o.some, ok, lambda r: r[0].i * NS + r[1].i == R)
    return And(o.is_some, per_pair(a[2], f))


def time_claim(a, o):
    T = nanos_of_day(a[0], a[1], a[2], a[3])

    def f(I, k):
        R = ref_round(T, I, a[5])
        return And(o.some.is_some, ref_valid_time(*o.some.some.ints()), nanos_of_day(*o.some.some.ints()) == R % DAY_NS)
    return And(o.is_some, per_pair(a[4], f))


def dt_claim(a, o):
    T = nanos_of_day(a[3], a[4], a[5], a[6])
    e0 = o.some[1].i

    def f(I, k):
        R = ref_round(T, I, a[8])
        total = e0 * DAY_NS + R
        ok = in_range(total, MIN_DAY * DAY_NS, (MAX_DAY + 1) * DAY_NS - 1)
        return opt_is(o.some[0], ok, lambda r: And(ref_valid_date(*r[0].ints()), ref_valid_time(*r[1].ints()),
                                                   r[2].i * DAY_NS + nanos_of_day(*r[1].ints()) == total))
    return And(o.is_some, per_pair(a[7], f))


def dt_day_claim(a, o):
    T = nanos_of_day(a[3], a[4], a[5], a[6])
    e0 = o.some[1].i
    R = ref_round(T, DAY_NS, a[7])
    total = e0 * DAY_NS + R
    ok = in_range(total, MIN_DAY * DAY_NS, (MAX_DAY + 1) * DAY_NS - 1)
    return And(o.is_some, opt_is(o.some[0], ok, lambda r: And(ref_valid_date(*r[0].ints()), r[2].i * DAY_NS + nanos_of_day(*r[1].ints()) == total)))


def off_claim(a, o):
    T = a[0] * NS

    def f(I, k):
        R = ref_round(T, I, a[2])
        ok = in_range(R, -OFF_MAX * NS, OFF_MAX * NS)
        # sub-second units are not permitted for offsets
        if I < NS:
            return o.some.is_none
        return opt_is(o.some, ok, lambda r: r.i * NS == R)
    return And(o.is_some, per_pair(a[1], f))


B_DTR = {0: (-9999, 9999), 1: (1, 12), 2: (1, 31), 3: (0, 23), 4: (0, 59), 5: (0, 59), 6: (0, 999999999)}

KERNELS = [
    K("c10::k_ts_round", pre=lambda a: And(ts_ok(a), in_range(a[2], 0, NP - 1), in_range(a[3], 0, 8)),
      claims=[("Timestamp::round == exact rounding of the nanosecond count to a multiple of increment*unit by the mode's rule; Err iff out of range", ts_claim)],
      bounds={0: (TS_MIN_S, TS_MAX_S), 1: (-999999999, 999999999), 2: (0, NP - 1), 3: (0, 8)}, split=(2, NP)),
    K("c10::k_sd_round", pre=lambda a: And(a[1] > -NS, a[1] < NS, Not(And(a[0] > 0, a[1] < 0)), Not(And(a[0] < 0, a[1] > 0)), in_range(a[2], 0, NP - 1), in_range(a[3], 0, 8)),
      claims=[("SignedDuration::round == exact rounding; Err iff the rounded seconds overflow i64", sd_claim)],
      bounds={1: (-999999999, 999999999), 2: (0, NP - 1), 3: (0, 8)}, split=(2, NP)),
    K("c10::k_time_round", pre=lambda a: And(ref_valid_time(a[0], a[1], a[2], a[3]), in_range(a[4], 0, NP - 1), in_range(a[5], 0, 8)),
      claims=[("Time::round == exact rounding of the nanosecond of day, wrapping at 24h", time_claim)],
      bounds={0: (0, 23), 1: (0, 59), 2: (0, 59), 3: (0, 999999999), 4: (0, NP - 1), 5: (0, 8)}, split=(4, NP)),
    K("c10::k_offset_round", pre=lambda a: And(in_range(a[0], -OFF_MAX, OFF_MAX), in_range(a[1], 0, NP - 1), in_range(a[2], 0, 8)),
      claims=[("Offset::round == exact rounding of the offset seconds; Err iff out of range or sub-second unit", off_claim)],
      bounds={0: (-OFF_MAX, OFF_MAX), 1: (0, NP - 1), 2: (0, 8)}, split=(1, NP)),
    K("c10::k_sd_round_inc", pre=lambda a: And(a[1] > -NS, a[1] < NS, Not(And(a[0] > 0, a[1] < 0)), Not(And(a[0] < 0, a[1] > 0)), in_range(a[3], 0, 8),
                                            in_range(a[0], -1000000, 1000000), in_range(a[2], -1000, 1000)),
      claims=[("SignedDuration::round with an arbitrary increment never panics; a non-positive increment is rejected",
               lambda a, o: And(o.is_some, Implies(a[2] <= 0, o.some.is_none)))],
      bounds={0: (-1000000, 1000000), 1: (-999999999, 999999999), 2: (-1000, 1000), 3: (0, 8)}),
    K("c10::k_time_round_inc", pre=lambda a: And(ref_valid_time(a[0], a[1], a[2], a[3]), in_range(a[5], 0, 8), in_range(a[4], -100, 1100)),
      bounds={0: (0, 23), 1: (0, 59), 2: (0, 59), 3: (0, 999999999), 4: (-100, 1100), 5: (0, 8)}, split=(4, 24), timeout=300,
      claims=[("increments in -100..1100: accepted exactly when they are a proper divisor of the next larger unit (60 min/h, 24 h/day, 1000 ms/s)",
               lambda a, o: And(o.is_some,
                                o.some[0].b == Or([a[4] == d for d in (1, 2, 3, 4, 5, 6, 10, 12, 15, 20, 30)]),
                                o.some[1].b == Or([a[4] == d for d in (1, 2, 3, 4, 6, 8, 12)]),
                                o.some[2].b == Or([a[4] == d for d in (1, 2, 4, 5, 8, 10, 20, 25, 40, 50, 100, 125, 200, 250, 500)])))]),
]
