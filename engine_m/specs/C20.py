"""C20 (fixed-offset kind only, engine M): the offset packed into the tagged handle comes back exactly.

The heap-backed kinds (POSIX, TZif: manual Arc counting), drop behaviour and threads are outside
the claim: the encoder models no heap and treats `drop` as having no observable effect on values."""
from speclib import *

MODULES = ["c20"]
TS_MIN_NS = TS_MIN_S * NS


def ts_ok(s, ns):
    return And(in_range(s, TS_MIN_S, TS_MAX_S), ns > -NS, ns < NS, Not(And(s > 0, ns < 0)), Not(And(s < 0, ns > 0)), s * NS + ns >= TS_MIN_NS)


KERNELS = [
    K("c20::k_tz_fixed", pre=lambda a: And(in_range(a[0], -OFF_MAX, OFF_MAX), ts_ok(a[1], a[2])),
      claims=[("TimeZone::fixed(o): to_fixed_offset() == o and to_offset(t) == o for every offset in +-25:59:59 (negative ones included) and every instant; == is reflexive and stable under clone",
               lambda a, o: And(o.is_some, o.some[0].is_some, o.some[0].some.i == a[0], o.some[1].i == a[0], o.some[2].b, o.some[3].b, o.some[4].b))],
      bounds={0: (-OFF_MAX, OFF_MAX), 1: (TS_MIN_S, TS_MAX_S), 2: (-999999999, 999999999)}),
    K("c20::k_tz_fixed_eq", pre=lambda a: And(in_range(a[0], -OFF_MAX, OFF_MAX), in_range(a[1], -OFF_MAX, OFF_MAX)),
      claims=[("two fixed-offset zones are equal exactly when their offsets are", lambda a, o: And(o.is_some, o.some.b == (a[0] == a[1])))],
      bounds={0: (-OFF_MAX, OFF_MAX), 1: (-OFF_MAX, OFF_MAX)}),
]
