"""C07 — differences are reversible, balanced and sign-consistent (civil Date, Time, Timestamp).

Mostly reference-free: the claims relate jiff's own until / checked_add / since / duration_until on the
same inputs (reversibility), plus sign consistency, "no unit above the largest", balance, and — for
uniform time units — the exact nanosecond total."""
from speclib import *

MODULES = ["c07"]
UNIT_NS = [1, 1000, 1000000, NS, 60 * NS, 3600 * NS]          # ns, us, ms, s, min, h


def absz(x):
    return If(x < 0, -x, x)


def date_lt(a, b):
    return Or(a[0] < b[0], And(a[0] == b[0], Or(a[1] < b[1], And(a[1] == b[1], a[2] < b[2]))))


def sign_ok(units, sgn):
    """every non-zero unit has sign sgn (sgn in {-1, 0, 1})"""
    return And([Or(u == 0, And(u > 0, sgn > 0), And(u < 0, sgn < 0)) for u in units])


def date_parts(a, o):
    da, db = (a[0], a[1], a[2]), (a[3], a[4], a[5])
    L = a[6]
    r = o.some.some
    yrs, mos, wks, dys = r[0].ints()
    sgn = If(date_lt(da, db), 1, If(date_lt(db, da), -1, 0))
    return da, db, L, r, (yrs, mos, wks, dys), sgn


def date_claims(back_for=None):
    def back(a, o):
        da, db, L, r, u, sgn = date_parts(a, o)
        c = And(r[2].is_some, eq3(r[2].some.ints(), db))
        if back_for is not None:
            c = Implies(Or([L == x for x in back_for]), c)
        return And(o.is_some, o.some.is_some, c)

    def signs(a, o):
        da, db, L, r, u, sgn = date_parts(a, o)
        return And(sign_ok(list(u), sgn), And([t == 0 for t in r[1].ints()]))

    def shape(a, o):
        da, db, L, r, (yrs, mos, wks, dys), sgn = date_parts(a, o)
        return And(Implies(L < 9, yrs == 0), Implies(L < 8, mos == 0), Implies(L != 7, wks == 0),
                   Implies(L == 9, absz(mos) < 12), Implies(L >= 8, absz(dys) < 31), Implies(L == 7, absz(dys) < 7))

    def neg(a, o):
        da, db, L, r, u, sgn = date_parts(a, o)
        return And(r[3].is_some, And([x == -y for x, y in zip(r[3].some.ints(), u)]))

    def dur(a, o):
        da, db, L, r, u, sgn = date_parts(a, o)
        return sd_is(r[4], (ref_epoch_day(*db) - ref_epoch_day(*da)) * 86400 * NS)
    def years(a, o):
        (y1, m1, d1), (y2, m2, d2), L, r, (yrs, mos, wks, dys), sgn = date_parts(a, o)
        dim = ref_dim(y2, m1)
        dc = If(d1 > dim, dim, d1)                      # a's day clamped into the target year's month
        before = Or(m2 < m1, And(m2 == m1, d2 < dc))    # (m2, d2) < (m1, dc)
        after = Or(m2 > m1, And(m2 == m1, d2 > dc))
        k = If(sgn > 0, (y2 - y1) - If(before, 1, 0), If(sgn < 0, (y2 - y1) + If(after, 1, 0), 0))
        return Implies(L == 9, yrs == k)

    return [("Date::until: a + a.until(b) == b (reversible)", back),
            ("Date::until(largest = year): the year count is the number of whole (day-clamped) years between the dates", years),
            ("Date::until: all non-zero units share the sign of b - a; no time units", signs),
            ("Date::until: nothing above the largest unit; balanced (months < 12, days < 31, days < 7 with weeks)", shape),
            ("Date::since == -Date::until", neg),
            ("Date::duration_until == exact day distance", dur)]


def date_until_claim(a, o):
    da, db = (a[0], a[1], a[2]), (a[3], a[4], a[5])
    L = a[6]
    r = o.some.some
    yrs, mos, wks, dys = r[0].ints()
    tunits = r[1].ints()
    sgn = If(date_lt(da, db), 1, If(date_lt(db, da), -1, 0))
    back_ok = And(r[2].is_some, eq3(r[2].some.ints(), db))
    above = And(Implies(L < 9, yrs == 0), Implies(L < 8, mos == 0), Implies(L != 7, wks == 0))
    balanced = And(Implies(L == 9, absz(mos) < 12), Implies(L >= 8, absz(dys) < 31), Implies(L == 7, absz(dys) < 7))
    since = r[3]
    neg = And(since.is_some, And([x == -y for x, y in zip(since.some.ints(), (yrs, mos, wks, dys))]))
    dur = sd_is(r[4], (ref_epoch_day(*db) - ref_epoch_day(*da)) * 86400 * NS)
    return And(o.is_some, o.some.is_some, back_ok, sign_ok([yrs, mos, wks, dys], sgn), And([t == 0 for t in tunits]), above, balanced, neg, dur)


def time_total(t):
    return nanos_of_day(t[0], t[1], t[2], t[3])


def span_time_total(u):
    return u[0] * 3600 * NS + u[1] * 60 * NS + u[2] * NS + u[3] * 1000000 + u[4] * 1000 + u[5]


def time_balance(u, L):
    """u = (h, mi, s, ms, us, ns); no unit above the largest L (index 0=ns..5=h) and every smaller unit below one of the next"""
    h, mi, s, ms, us, ns = u
    return And(Implies(L < 5, h == 0), Implies(L < 4, mi == 0), Implies(L < 3, s == 0), Implies(L < 2, ms == 0), Implies(L < 1, us == 0),
               Implies(L >= 1, absz(ns) < 1000), Implies(L >= 2, absz(us) < 1000), Implies(L >= 3, absz(ms) < 1000),
               Implies(L >= 4, absz(s) < 60), Implies(L >= 5, absz(mi) < 60))


def time_until_claim(a, o):
    ta, tb, L = a[0:4], a[4:8], a[8]
    r = o.some.some
    u = r[1].ints()
    diff = time_total(tb) - time_total(ta)
    sgn = If(diff > 0, 1, If(diff < 0, -1, 0))
    return And(o.is_some, o.some.is_some, And([c == 0 for c in r[0].ints()]),
               span_time_total(u) == diff, sign_ok(u, sgn), time_balance(u, L),
               nanos_of_day(*r[2].ints()) == time_total(tb),
               r[3].is_some, And([x == -y for x, y in zip(r[3].some.ints(), u)]),
               sd_is(r[4], diff))


def sd_is(p, total):
    """p = Out of (secs, nanos): the normal form (|nanos| < 1 s, signs agree) denoting `total`"""
    sec, n = p[0].i, p[1].i
    return And(sec * NS + n == total, n > -NS, n < NS, Not(And(sec > 0, n < 0)), Not(And(sec < 0, n > 0)))


def ts_until_claim(a, o):
    T1, T2, L = a[0] * NS + a[1], a[2] * NS + a[3], a[4]
    diff = T2 - T1
    sgn = If(diff > 0, 1, If(diff < 0, -1, 0))
    # the only way to fail: the distance does not fit the nanosecond unit limit when nanoseconds are the largest unit
    fits = Or(L != 0, absz(diff) <= LIM["nanoseconds"])

    def payload(r):
        u = r[1].ints()
        return And(And([c == 0 for c in r[0].ints()]),
                   span_time_total(u) == diff, sign_ok(u, sgn), time_balance(u, L),
                   r[2].is_some, r[2].some[0].i * NS + r[2].some[1].i == T2,
                   r[3].is_some, And([x == -y for x, y in zip(r[3].some.ints(), u)]),
                   sd_is(r[4], diff))
    return And(o.is_some, opt_is(o.some, fits, payload))


def ts_ok(s, ns):
    return And(in_range(s, TS_MIN_S, TS_MAX_S), ns > -NS, ns < NS, Not(And(s > 0, ns < 0)), Not(And(s < 0, ns > 0)), s * NS + ns >= TS_MIN_S * NS)


B_D2 = {0: (-9999, 9999), 1: (1, 12), 2: (1, 31), 3: (-9999, 9999), 4: (1, 12), 5: (1, 31)}
B_T2 = {0: (0, 23), 1: (0, 59), 2: (0, 59), 3: (0, 999999999), 4: (0, 23), 5: (0, 59), 6: (0, 59), 7: (0, 999999999)}

KERNELS = [
    K("c07::k_time_until", pre=lambda a: And(ref_valid_time(*a[0:4]), ref_valid_time(*a[4:8]), in_range(a[8], 0, 5)),
      claims=[("Time::until(largest in ns..h): exact nanosecond distance, balanced, sign-consistent; a + s == b; since == -until; duration_until exact", time_until_claim)],
      bounds={**B_T2, 8: (0, 5)}, split=(8, 6), timeout=240),
    K("c07::k_ts_until", pre=lambda a: And(ts_ok(a[0], a[1]), ts_ok(a[2], a[3]), in_range(a[4], 0, 3)),
      claims=[("Timestamp::until(largest in ns..s): exact nanosecond distance, balanced, sign-consistent; a + s == b; since == -until; duration_until exact; Err only when the distance exceeds the nanosecond unit limit", ts_until_claim)],
      bounds={0: (TS_MIN_S, TS_MAX_S), 1: (-999999999, 999999999), 2: (TS_MIN_S, TS_MAX_S), 3: (-999999999, 999999999), 4: (0, 3)}, split=(4, 4), timeout=400),
    K("c07::k_ts_until", pre=lambda a: And(ts_ok(a[0], a[1]), ts_ok(a[2], a[3]), in_range(a[4], 4, 5)),
      claims=[("Timestamp::until(largest = minute / hour)", ts_until_claim)],
      bounds={0: (TS_MIN_S, TS_MAX_S), 1: (-999999999, 999999999), 2: (TS_MIN_S, TS_MAX_S), 3: (-999999999, 999999999), 4: (4, 5)}, split=(0, 32), timeout=1200, tier="deep"),
    K("c07::k_date_until", pre=lambda a: And(ref_valid_date(a[0], a[1], a[2]), ref_valid_date(a[3], a[4], a[5]), in_range(a[6], 6, 9),
                                           in_range(a[0], 2100, 2100), in_range(a[3], 2099, 2101), a[6] != 7),
      claims=[(lab + " [a in 2100, b in 2099..2101; largest in day, month, year; reversibility for month/year: deep tier]", f) for lab, f in date_claims(back_for=[6])],
      bounds={**B_D2, 0: (2100, 2100), 3: (2099, 2101), 6: (6, 9)}, split=(6, 4), timeout=400),
    K("c07::k_date_until", pre=lambda a: And(ref_valid_date(a[0], a[1], a[2]), ref_valid_date(a[3], a[4], a[5]), in_range(a[6], 6, 9)),
      claims=date_claims(),
      bounds={**B_D2, 6: (6, 9)}, split=(0, 64), timeout=900, tier="deep"),
]
