//! Forwarders injected (as `src/__verif_m.rs`) into the *scratch copy* of jiff
//! that engine M compiles. They only expose `pub(crate)` internals with
//! primitive-typed signatures; they never re-implement anything.
#![allow(missing_docs, dead_code, unused_imports, clippy::all)]

use crate::shared::util::itime::*;

type D3 = (i16, i8, i8);
type T4 = (i8, i8, i8, i32);

#[inline(always)]
fn d3(d: IDate) -> D3 {
    (d.year, d.month, d.day)
}
#[inline(always)]
fn t4(t: ITime) -> T4 {
    (t.hour, t.minute, t.second, t.subsec_nanosecond)
}
#[inline(always)]
fn idate(d: D3) -> IDate {
    IDate { year: d.0, month: d.1, day: d.2 }
}
#[inline(always)]
fn itime(t: T4) -> ITime {
    ITime { hour: t.0, minute: t.1, second: t.2, subsec_nanosecond: t.3 }
}

#[inline(always)]
pub fn to_date(n: i32) -> D3 {
    d3(IEpochDay { epoch_day: n }.to_date())
}
#[inline(always)]
pub fn to_epoch_day(d: D3) -> i32 {
    idate(d).to_epoch_day().epoch_day
}
#[inline(always)]
pub fn epoch_weekday(n: i32) -> i8 {
    IEpochDay { epoch_day: n }.weekday().to_monday_one_offset()
}
#[inline(always)]
pub fn date_weekday(d: D3) -> i8 {
    idate(d).weekday().to_monday_one_offset()
}
#[inline(always)]
pub fn epoch_checked_add(n: i32, amount: i32) -> Option<i32> {
    IEpochDay { epoch_day: n }.checked_add(amount).ok().map(|d| d.epoch_day)
}
#[inline(always)]
pub fn leap(y: i16) -> bool {
    is_leap_year(y)
}
#[inline(always)]
pub fn dim(y: i16, m: i8) -> i8 {
    days_in_month(y, m)
}
#[inline(always)]
pub fn diy(y: i16) -> i16 {
    days_in_year(y)
}
#[inline(always)]
pub fn itomorrow(d: D3) -> Option<D3> {
    idate(d).tomorrow().ok().map(d3)
}
#[inline(always)]
pub fn iyesterday(d: D3) -> Option<D3> {
    idate(d).yesterday().ok().map(d3)
}
#[inline(always)]
pub fn itry_new(y: i16, m: i8, d: i8) -> Option<D3> {
    IDate::try_new(y, m, d).ok().map(d3)
}
#[inline(always)]
pub fn ifrom_day_of_year(y: i16, doy: i16) -> Option<D3> {
    IDate::from_day_of_year(y, doy).ok().map(d3)
}
#[inline(always)]
pub fn ifrom_day_of_year_no_leap(y: i16, doy: i16) -> Option<D3> {
    IDate::from_day_of_year_no_leap(y, doy).ok().map(d3)
}
#[inline(always)]
pub fn inth_weekday_of_month(d: D3, nth: i8, wd_monday_one: i8) -> Option<D3> {
    idate(d)
        .nth_weekday_of_month(nth, IWeekday::from_monday_one_offset(wd_monday_one))
        .ok()
        .map(d3)
}
#[inline(always)]
pub fn ichecked_add_days(d: D3, n: i32) -> Option<D3> {
    idate(d).checked_add_days(n).ok().map(d3)
}
#[inline(always)]
pub fn iprev_year(d: D3) -> Option<i16> {
    idate(d).prev_year().ok()
}
#[inline(always)]
pub fn inext_year(d: D3) -> Option<i16> {
    idate(d).next_year().ok()
}
#[inline(always)]
pub fn weekday_since(a_monday_one: i8, b_monday_one: i8) -> i8 {
    IWeekday::from_monday_one_offset(a_monday_one)
        .since(IWeekday::from_monday_one_offset(b_monday_one))
}
#[inline(always)]
pub fn weekday_from_sunday_zero(o: i8) -> i8 {
    IWeekday::from_sunday_zero_offset(o).to_monday_one_offset()
}

// ---- time of day
#[inline(always)]
pub fn time_to_second(t: T4) -> i32 {
    itime(t).to_second().second
}
#[inline(always)]
pub fn time_to_nanosecond(t: T4) -> i64 {
    itime(t).to_nanosecond().nanosecond
}
#[inline(always)]
pub fn second_to_time(s: i32) -> T4 {
    t4(ITimeSecond { second: s }.to_time())
}
#[inline(always)]
pub fn nanosecond_to_time(n: i64) -> T4 {
    t4(ITimeNanosecond { nanosecond: n }.to_time())
}

// ---- timestamp <-> datetime
#[inline(always)]
pub fn ts_to_datetime(second: i64, nanosecond: i32, offset: i32) -> (D3, T4) {
    let dt = ITimestamp { second, nanosecond }.to_datetime(IOffset { second: offset });
    (d3(dt.date), t4(dt.time))
}
#[inline(always)]
pub fn dt_to_timestamp(d: D3, t: T4, offset: i32) -> (i64, i32) {
    let ts = IDateTime { date: idate(d), time: itime(t) }.to_timestamp(IOffset { second: offset });
    (ts.second, ts.nanosecond)
}
#[inline(always)]
pub fn dt_to_timestamp_checked(d: D3, t: T4, offset: i32) -> Option<(i64, i32)> {
    IDateTime { date: idate(d), time: itime(t) }
        .to_timestamp_checked(IOffset { second: offset })
        .map(|ts| (ts.second, ts.nanosecond))
}
#[inline(always)]
pub fn dt_checked_add_seconds(d: D3, t: T4, seconds: i32) -> Option<(D3, T4)> {
    IDateTime { date: idate(d), time: itime(t) }
        .checked_add_seconds(seconds)
        .ok()
        .map(|dt| (d3(dt.date), t4(dt.time)))
}
#[inline(always)]
pub fn dt_saturating_add_seconds(d: D3, t: T4, seconds: i32) -> (D3, T4) {
    let dt = IDateTime { date: idate(d), time: itime(t) }.saturating_add_seconds(seconds);
    (d3(dt.date), t4(dt.time))
}

// ---- POSIX TZ rules (shared::posix) with the rule given field by field
use crate::shared::{PosixDay, PosixDayTime, PosixDst, PosixOffset, PosixRule, PosixTime, PosixTimeZone as SharedPosix};

#[inline(always)]
fn posix_day(kind: u8, a: i16, b: i8, c: i8) -> PosixDay {
    match kind {
        0 => PosixDay::JulianOne(a),
        1 => PosixDay::JulianZero(a),
        _ => PosixDay::WeekdayOfMonth { month: a as i8, week: b, weekday: c },
    }
}
#[inline(always)]
pub fn posix_tz(std: i32, dst: i32, sk: u8, sa: i16, sb: i8, sc: i8, st: i32, ek: u8, ea: i16, eb: i8, ec: i8, et: i32) -> SharedPosix<&'static str> {
    SharedPosix {
        std_abbrev: "STD",
        std_offset: PosixOffset { second: std },
        dst: Some(PosixDst {
            abbrev: "DST",
            offset: PosixOffset { second: dst },
            rule: PosixRule {
                start: PosixDayTime { date: posix_day(sk, sa, sb, sc), time: PosixTime { second: st } },
                end: PosixDayTime { date: posix_day(ek, ea, eb, ec), time: PosixTime { second: et } },
            },
        }),
    }
}
/// (to_offset, to_offset_info.offset, to_offset_info.is_dst, abbreviation is "DST")
#[inline(always)]
pub fn posix_offsets(tz: &SharedPosix<&'static str>, second: i64, nanosecond: i32) -> (i32, i32, bool, bool) {
    let ts = ITimestamp { second, nanosecond };
    let off = tz.to_offset(ts);
    let (ioff, _abbrev, is_dst) = tz.to_offset_info(ts);
    (off.second, ioff.second, is_dst, is_dst)
}
#[inline(always)]
pub fn posix_next(tz: &SharedPosix<&'static str>, second: i64, nanosecond: i32) -> Option<(i64, i32, i32, bool)> {
    tz.next_transition(ITimestamp { second, nanosecond }).map(|(t, o, _, d)| (t.second, t.nanosecond, o.second, d))
}
#[inline(always)]
pub fn posix_prev(tz: &SharedPosix<&'static str>, second: i64, nanosecond: i32) -> Option<(i64, i32, i32, bool)> {
    tz.previous_transition(ITimestamp { second, nanosecond }).map(|(t, o, _, d)| (t.second, t.nanosecond, o.second, d))
}
/// classification of a civil datetime: (kind 0=unambiguous 1=gap 2=fold, before/offset, after)
#[inline(always)]
pub fn posix_ambiguous(tz: &SharedPosix<&'static str>, d: D3, t: T4) -> (u8, i32, i32) {
    match tz.to_ambiguous_kind(IDateTime { date: idate(d), time: itime(t) }) {
        IAmbiguousOffset::Unambiguous { offset } => (0, offset.second, offset.second),
        IAmbiguousOffset::Gap { before, after } => (1, before.second, after.second),
        IAmbiguousOffset::Fold { before, after } => (2, before.second, after.second),
    }
}

// ---- Span splitting used by Zoned arithmetic (C06)
#[inline(always)]
pub fn span_only_time(s: crate::Span) -> crate::Span {
    s.only_time()
}
#[inline(always)]
pub fn span_only_calendar(s: crate::Span) -> crate::Span {
    s.only_calendar()
}
