//! C02 kernels: instant <-> civil datetime under a fixed offset; timestamp unit views.
use crate::common::*;
use jiff::tz::Offset;

type TS = (i64, i32);
#[inline(always)]
fn ts2(t: Timestamp) -> TS { (t.as_second(), t.subsec_nanosecond()) }

// ---- shared::util::itime core
pub fn k_its_to_dt(s: i64, ns: i32, off: i32) -> (D3, T4, i32) {
    let (d, t) = f::ts_to_datetime(s, ns, off);
    (d, t, f::to_epoch_day(d))
}
pub fn k_idt_to_ts(y: i16, m: i8, d: i8, h: i8, mi: i8, sec: i8, ns: i32, off: i32) -> (TS, i32) {
    (f::dt_to_timestamp((y, m, d), (h, mi, sec, ns), off), f::to_epoch_day((y, m, d)))
}
pub fn k_its_roundtrip(s: i64, ns: i32, off: i32) -> TS {
    let (d, t) = f::ts_to_datetime(s, ns, off);
    f::dt_to_timestamp(d, t, off)
}
pub fn k_idt_to_ts_checked(y: i16, m: i8, d: i8, h: i8, mi: i8, sec: i8, ns: i32, off: i32) -> (Option<TS>, i32) {
    (f::dt_to_timestamp_checked((y, m, d), (h, mi, sec, ns), off), f::to_epoch_day((y, m, d)))
}
pub fn k_time_to_second(h: i8, mi: i8, s: i8, ns: i32) -> (i32, i64) {
    (f::time_to_second((h, mi, s, ns)), f::time_to_nanosecond((h, mi, s, ns)))
}
pub fn k_second_to_time(s: i32) -> T4 { f::second_to_time(s) }
pub fn k_nanosecond_to_time(n: i64) -> T4 { f::nanosecond_to_time(n) }

// ---- public API
pub fn k_ts_new(s: i64, ns: i32) -> Option<(TS, i128)> {
    Timestamp::new(s, ns).ok().map(|t| (ts2(t), t.as_nanosecond()))
}
pub fn k_ts_from_second(s: i64) -> Option<(TS, i128)> {
    Timestamp::from_second(s).ok().map(|t| (ts2(t), t.as_nanosecond()))
}
pub fn k_ts_from_millisecond(ms: i64) -> Option<(TS, i128)> {
    Timestamp::from_millisecond(ms).ok().map(|t| (ts2(t), t.as_nanosecond()))
}
pub fn k_ts_from_microsecond(us: i64) -> Option<(TS, i128)> {
    Timestamp::from_microsecond(us).ok().map(|t| (ts2(t), t.as_nanosecond()))
}
pub fn k_ts_from_nanosecond(n: i128) -> Option<(TS, i128)> {
    Timestamp::from_nanosecond(n).ok().map(|t| (ts2(t), t.as_nanosecond()))
}
pub fn k_ts_views(s: i64, ns: i32) -> Option<(i64, i64, i64, i128, i32, i32, i32, i8, bool)> {
    let t = Timestamp::new(s, ns).ok()?;
    Some((t.as_second(), t.as_millisecond(), t.as_microsecond(), t.as_nanosecond(),
          t.subsec_millisecond(), t.subsec_microsecond(), t.subsec_nanosecond(), t.signum(), t.is_zero()))
}
pub fn k_ts_duration(s: i64, ns: i32) -> Option<((i64, i32), Option<TS>)> {
    let t = Timestamp::new(s, ns).ok()?;
    let d = t.as_duration();
    Some(((d.as_secs(), d.subsec_nanos()), Timestamp::from_duration(d).ok().map(ts2)))
}
pub fn k_off_to_datetime(s: i64, ns: i32, off: i32) -> Option<(D3, T4, i32)> {
    let t = Timestamp::new(s, ns).ok()?;
    let o = Offset::from_seconds(off).ok()?;
    let dt = o.to_datetime(t);
    Some((d3(dt.date()), t4(dt.time()), f::to_epoch_day(d3(dt.date()))))
}
pub fn k_off_to_timestamp(y: i16, m: i8, d: i8, h: i8, mi: i8, sec: i8, ns: i32, off: i32) -> Option<(Option<(TS, i128)>, i32)> {
    let dt = mkdate((y, m, d))?.to_datetime(mktime((h, mi, sec, ns))?);
    let o = Offset::from_seconds(off).ok()?;
    Some((o.to_timestamp(dt).ok().map(|t| (ts2(t), t.as_nanosecond())), f::to_epoch_day((y, m, d))))
}
pub fn k_off_roundtrip(s: i64, ns: i32, off: i32) -> Option<Option<(TS, bool)>> {
    let t = Timestamp::new(s, ns).ok()?;
    let o = Offset::from_seconds(off).ok()?;
    let dt = o.to_datetime(t);
    Some(o.to_timestamp(dt).ok().map(|u| (ts2(u), u == t)))
}
