//! shared helpers for kernel wrappers (engine M). Plain data in, plain data out.
#![allow(dead_code)]
pub use jiff::__verif_m as f;
pub use jiff::civil::{Date, DateTime, ISOWeekDate, Time, Weekday};
pub use jiff::{SignedDuration, Span, Timestamp};

pub type D3 = (i16, i8, i8);
pub type T4 = (i8, i8, i8, i32);

#[inline(always)]
pub fn d3(d: Date) -> D3 {
    (d.year(), d.month(), d.day())
}
#[inline(always)]
pub fn t4(t: Time) -> T4 {
    (t.hour(), t.minute(), t.second(), t.subsec_nanosecond())
}
#[inline(always)]
pub fn mkdate(d: D3) -> Option<Date> {
    Date::new(d.0, d.1, d.2).ok()
}
#[inline(always)]
pub fn mktime(t: T4) -> Option<Time> {
    Time::new(t.0, t.1, t.2, t.3).ok()
}
#[inline(always)]
pub fn wd(w: i8) -> Option<Weekday> {
    Weekday::from_monday_one_offset(w).ok()
}

/// A sign-consistent span from non-negative magnitudes plus a sign flag, through the real setters.
#[inline(always)]
pub fn mkspan_time(neg: bool, h: i64, mi: i64, s: i64, ms: i64, us: i64, ns: i64) -> Option<Span> {
    let sp = Span::new()
        .try_hours(h).ok()?
        .try_minutes(mi).ok()?
        .try_seconds(s).ok()?
        .try_milliseconds(ms).ok()?
        .try_microseconds(us).ok()?
        .try_nanoseconds(ns).ok()?;
    Some(if neg { sp.negate() } else { sp })
}
#[inline(always)]
pub fn mkspan_cal(neg: bool, y: i64, mo: i64, w: i64, d: i64) -> Option<Span> {
    let sp = Span::new()
        .try_years(y).ok()?
        .try_months(mo).ok()?
        .try_weeks(w).ok()?
        .try_days(d).ok()?;
    Some(if neg { sp.negate() } else { sp })
}
#[inline(always)]
pub fn mkspan_full(neg: bool, y: i64, mo: i64, w: i64, d: i64, h: i64, mi: i64, s: i64, ns: i64) -> Option<Span> {
    let sp = Span::new()
        .try_years(y).ok()?
        .try_months(mo).ok()?
        .try_weeks(w).ok()?
        .try_days(d).ok()?
        .try_hours(h).ok()?
        .try_minutes(mi).ok()?
        .try_seconds(s).ok()?
        .try_nanoseconds(ns).ok()?;
    Some(if neg { sp.negate() } else { sp })
}
#[inline(always)]
pub fn mksdur(secs: i64, nanos: i32) -> Option<SignedDuration> {
    // SignedDuration::new panics on overflow; only build from already-normal pairs
    if nanos <= -1_000_000_000 || nanos >= 1_000_000_000 { return None; }
    if (secs > 0 && nanos < 0) || (secs < 0 && nanos > 0) { return None; }
    Some(SignedDuration::new(secs, nanos))
}

pub use jiff::{RoundMode, Unit};
#[inline(always)]
pub fn mode_of(m: u8) -> Option<RoundMode> {
    Some(match m {
        0 => RoundMode::Ceil,
        1 => RoundMode::Floor,
        2 => RoundMode::Expand,
        3 => RoundMode::Trunc,
        4 => RoundMode::HalfCeil,
        5 => RoundMode::HalfFloor,
        6 => RoundMode::HalfExpand,
        7 => RoundMode::HalfTrunc,
        8 => RoundMode::HalfEven,
        _ => return None,
    })
}
/// (unit, increment) pairs: index -> concrete pair, so that the encoder sees constants per box.
#[inline(always)]
pub fn unit_inc(ui: u8) -> Option<(Unit, i64)> {
    Some(match ui {
        0 => (Unit::Nanosecond, 1),
        1 => (Unit::Nanosecond, 5),
        2 => (Unit::Nanosecond, 8),
        3 => (Unit::Nanosecond, 125),
        4 => (Unit::Nanosecond, 500),
        5 => (Unit::Microsecond, 1),
        6 => (Unit::Microsecond, 25),
        7 => (Unit::Microsecond, 200),
        8 => (Unit::Millisecond, 1),
        9 => (Unit::Millisecond, 4),
        10 => (Unit::Millisecond, 250),
        11 => (Unit::Second, 1),
        12 => (Unit::Second, 15),
        13 => (Unit::Second, 30),
        14 => (Unit::Minute, 1),
        15 => (Unit::Minute, 12),
        16 => (Unit::Minute, 20),
        17 => (Unit::Hour, 1),
        18 => (Unit::Hour, 3),
        19 => (Unit::Hour, 12),
        _ => return None,
    })
}

#[inline(always)]
pub fn unit_of(u: u8) -> Option<Unit> {
    Some(match u {
        0 => Unit::Nanosecond,
        1 => Unit::Microsecond,
        2 => Unit::Millisecond,
        3 => Unit::Second,
        4 => Unit::Minute,
        5 => Unit::Hour,
        6 => Unit::Day,
        7 => Unit::Week,
        8 => Unit::Month,
        9 => Unit::Year,
        _ => return None,
    })
}
pub type SpanCal = (i16, i32, i32, i32);
pub type SpanTime = (i32, i64, i64, i64, i64, i64);
#[inline(always)]
pub fn span_cal(s: &Span) -> SpanCal { (s.get_years(), s.get_months(), s.get_weeks(), s.get_days()) }
#[inline(always)]
pub fn span_time(s: &Span) -> SpanTime {
    (s.get_hours(), s.get_minutes(), s.get_seconds(), s.get_milliseconds(), s.get_microseconds(), s.get_nanoseconds())
}
