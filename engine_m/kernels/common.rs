//! shared helpers for kernel wrappers (engine M). Plain data in, plain data out.
#![allow(dead_code)]
pub use jiff::__verif_m as f;
pub use jiff::civil::{Date, DateTime, ISOWeekDate, Time, Weekday};
pub use jiff::{SignedDuration, Span, Timestamp};

pub type D3 = (i16, i8, i8);
pub type T4 = (i8, i8, i8, i32);

#[inline(always)]
pub fn d3(d: Date) -> D3 {
    (d.year(), d.month(), d.day())
}
#[inline(always)]
pub fn t4(t: Time) -> T4 {
    (t.hour(), t.minute(), t.second(), t.subsec_nanosecond())
}
#[inline(always)]
pub fn mkdate(d: D3) -> Option<Date> {
    Date::new(d.0, d.1, d.2).ok()
}
#[inline(always)]
pub fn mktime(t: T4) -> Option<Time> {
    Time::new(t.0, t.1, t.2, t.3).ok()
}
#[inline(always)]
pub fn wd(w: i8) -> Option<Weekday> {
    Weekday::from_monday_one_offset(w).ok()
}
