//! shared helpers for kernel wrappers (engine M). Plain data in, plain data out.
#![allow(dead_code)]
pub use jiff::__verif_m as f;
pub use jiff::civil::{Date, DateTime, ISOWeekDate, Time, Weekday};
pub use jiff::{SignedDuration, Span, Timestamp};

pub type D3 = (i16, i8, i8);
pub type T4 = (i8, i8, i8, i32);

#[inline(always)]
pub fn d3(d: Date) -> D3 {
    (d.year(), d.month(), d.day())
}
#[inline(always)]
pub fn t4(t: Time) -> T4 {
    (t.hour(), t.minute(), t.second(), t.subsec_nanosecond())
}
#[inline(always)]
pub fn mkdate(d: D3) -> Option<Date> {
    Date::new(d.0, d.1, d.2).ok()
}
#[inline(always)]
pub fn mktime(t: T4) -> Option<Time> {
    Time::new(t.0, t.1, t.2, t.3).ok()
}
#[inline(always)]
pub fn wd(w: i8) -> Option<Weekday> {
    Weekday::from_monday_one_offset(w).ok()
}

/// A sign-consistent span from non-negative magnitudes plus a sign flag, through the real setters.
#[inline(always)]
pub fn mkspan_time(neg: bool, h: i64, mi: i64, s: i64, ms: i64, us: i64, ns: i64) -> Option<Span> {
    let sp = Span::new()
        .try_hours(h).ok()?
        .try_minutes(mi).ok()?
        .try_seconds(s).ok()?
        .try_milliseconds(ms).ok()?
        .try_microseconds(us).ok()?
        .try_nanoseconds(ns).ok()?;
    Some(if neg { sp.negate() } else { sp })
}
#[inline(always)]
pub fn mkspan_cal(neg: bool, y: i64, mo: i64, w: i64, d: i64) -> Option<Span> {
    let sp = Span::new()
        .try_years(y).ok()?
        .try_months(mo).ok()?
        .try_weeks(w).ok()?
        .try_days(d).ok()?;
    Some(if neg { sp.negate() } else { sp })
}
#[inline(always)]
pub fn mkspan_full(neg: bool, y: i64, mo: i64, w: i64, d: i64, h: i64, mi: i64, s: i64, ns: i64) -> Option<Span> {
    let sp = Span::new()
        .try_years(y).ok()?
        .try_months(mo).ok()?
        .try_weeks(w).ok()?
        .try_days(d).ok()?
        .try_hours(h).ok()?
        .try_minutes(mi).ok()?
        .try_seconds(s).ok()?
        .try_nanoseconds(ns).ok()?;
    Some(if neg { sp.negate() } else { sp })
}
#[inline(always)]
pub fn mksdur(secs: i64, nanos: i32) -> Option<SignedDuration> {
    // SignedDuration::new panics on overflow; only build from already-normal pairs
    if nanos <= -1_000_000_000 || nanos >= 1_000_000_000 { return None; }
    if (secs > 0 && nanos < 0) || (secs < 0 && nanos > 0) { return None; }
    Some(SignedDuration::new(secs, nanos))
}
