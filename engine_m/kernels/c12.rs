//! C12 kernels: Span and SignedDuration as value types.
use crate::common::*;

type SD = (i64, i32);
#[inline(always)]
fn sd2(d: SignedDuration) -> SD { (d.as_secs(), d.subsec_nanos()) }

// ---- Span unit setters: Ok iff within the documented limit; getter returns the value
pub fn k_span_years(v: i64) -> Option<(i16, i8)> { Span::new().try_years(v).ok().map(|s| (s.get_years(), s.signum())) }
pub fn k_span_months(v: i64) -> Option<(i32, i8)> { Span::new().try_months(v).ok().map(|s| (s.get_months(), s.signum())) }
pub fn k_span_weeks(v: i64) -> Option<(i32, i8)> { Span::new().try_weeks(v).ok().map(|s| (s.get_weeks(), s.signum())) }
pub fn k_span_days(v: i64) -> Option<(i32, i8)> { Span::new().try_days(v).ok().map(|s| (s.get_days(), s.signum())) }
pub fn k_span_hours(v: i64) -> Option<(i32, i8)> { Span::new().try_hours(v).ok().map(|s| (s.get_hours(), s.signum())) }
pub fn k_span_minutes(v: i64) -> Option<(i64, i8)> { Span::new().try_minutes(v).ok().map(|s| (s.get_minutes(), s.signum())) }
pub fn k_span_seconds(v: i64) -> Option<(i64, i8)> { Span::new().try_seconds(v).ok().map(|s| (s.get_seconds(), s.signum())) }
pub fn k_span_milliseconds(v: i64) -> Option<(i64, i8)> { Span::new().try_milliseconds(v).ok().map(|s| (s.get_milliseconds(), s.signum())) }
pub fn k_span_microseconds(v: i64) -> Option<(i64, i8)> { Span::new().try_microseconds(v).ok().map(|s| (s.get_microseconds(), s.signum())) }
pub fn k_span_nanoseconds(v: i64) -> Option<(i64, i8)> { Span::new().try_nanoseconds(v).ok().map(|s| (s.get_nanoseconds(), s.signum())) }

// ---- sign bookkeeping over setter sequences (three setters, then overwrite the first)
pub fn k_span_sign3(d: i64, h: i64, ns: i64, d2: i64) -> Option<((i32, i32, i64, i8), (i32, i32, i64, i8))> {
    let s = Span::new().try_days(d).ok()?.try_hours(h).ok()?.try_nanoseconds(ns).ok()?;
    let a = (s.get_days(), s.get_hours(), s.get_nanoseconds(), s.signum());
    let s2 = s.try_days(d2).ok()?;
    Some((a, (s2.get_days(), s2.get_hours(), s2.get_nanoseconds(), s2.signum())))
}
pub fn k_span_neg_abs(neg: bool, d: i64, h: i64, ns: i64) -> Option<((i32, i32, i64, i8), (i32, i32, i64, i8), bool, bool, bool)> {
    let s = mkspan_full(neg, 0, 0, 0, d, h, 0, 0, ns)?;
    let n = s.negate();
    let a = s.abs();
    Some(((n.get_days(), n.get_hours(), n.get_nanoseconds(), n.signum()),
          (a.get_days(), a.get_hours(), a.get_nanoseconds(), a.signum()),
          s.is_zero(), s.is_negative(), s.is_positive()))
}
pub fn k_span_checked_mul(neg: bool, mo: i64, d: i64, h: i64, sec: i64, ns: i64, rhs: i64) -> Option<Option<(i32, i32, i32, i64, i64, i8)>> {
    let s = mkspan_full(neg, 0, mo, 0, d, h, 0, sec, ns)?;
    Some(s.checked_mul(rhs).ok().map(|r| (r.get_months(), r.get_days(), r.get_hours(), r.get_seconds(), r.get_nanoseconds(), r.signum())))
}
pub fn k_span_checked_mul_small(neg: bool, y: i64, w: i64, mi: i64, ms: i64, us: i64, rhs: i64) -> Option<Option<(i16, i32, i64, i64, i64, i8)>> {
    let s = Span::new().try_years(y).ok()?.try_weeks(w).ok()?.try_minutes(mi).ok()?.try_milliseconds(ms).ok()?.try_microseconds(us).ok()?;
    let s = if neg { s.negate() } else { s };
    Some(s.checked_mul(rhs).ok().map(|r| (r.get_years(), r.get_weeks(), r.get_minutes(), r.get_milliseconds(), r.get_microseconds(), r.signum())))
}
pub fn k_span_fieldwise_eq(d1: i64, h1: i64, d2: i64, h2: i64) -> Option<bool> {
    let a = Span::new().try_days(d1).ok()?.try_hours(h1).ok()?;
    let b = Span::new().try_days(d2).ok()?.try_hours(h2).ok()?;
    Some(a.fieldwise() == b.fieldwise())
}

// ---- SignedDuration
pub fn k_sd_new(secs: i64, nanos: i32) -> (SD, i128) { let d = SignedDuration::new(secs, nanos); (sd2(d), d.as_nanos()) }
pub fn k_sd_from_units(v: i64) -> (SD, SD, SD, SD) {
    (sd2(SignedDuration::from_secs(v)), sd2(SignedDuration::from_millis(v)), sd2(SignedDuration::from_micros(v)), sd2(SignedDuration::from_nanos(v)))
}
pub fn k_sd_from_hours(v: i64) -> SD { sd2(SignedDuration::from_hours(v)) }
pub fn k_sd_from_mins(v: i64) -> SD { sd2(SignedDuration::from_mins(v)) }
pub fn k_sd_views(secs: i64, nanos: i32) -> Option<((i64, i32, i32, i32, i128, i128, i128), (i64, i64, i8, bool, bool, bool))> {
    let d = mksdur(secs, nanos)?;
    Some(((d.as_secs(), d.subsec_millis(), d.subsec_micros(), d.subsec_nanos(), d.as_millis(), d.as_micros(), d.as_nanos()),
          (d.as_hours(), d.as_mins(), d.signum(), d.is_zero(), d.is_positive(), d.is_negative())))
}
pub fn k_sd_add(s1: i64, n1: i32, s2: i64, n2: i32) -> Option<(Option<SD>, Option<SD>, SD, SD)> {
    let a = mksdur(s1, n1)?;
    let b = mksdur(s2, n2)?;
    Some((a.checked_add(b).map(sd2), a.checked_sub(b).map(sd2), sd2(a.saturating_add(b)), sd2(a.saturating_sub(b))))
}
pub fn k_sd_mul(s1: i64, n1: i32, k: i32) -> Option<(Option<SD>, SD)> {
    let a = mksdur(s1, n1)?;
    Some((a.checked_mul(k).map(sd2), sd2(a.saturating_mul(k))))
}
pub fn k_sd_div(s1: i64, n1: i32, k: i32) -> Option<Option<SD>> {
    let a = mksdur(s1, n1)?;
    Some(a.checked_div(k).map(sd2))
}
pub fn k_sd_neg_abs(s1: i64, n1: i32) -> Option<(Option<SD>, (u64, u32))> {
    let a = mksdur(s1, n1)?;
    let u = a.unsigned_abs();
    Some((a.checked_neg().map(sd2), (u.as_secs(), u.subsec_nanos())))
}
pub fn k_sd_abs(s1: i64, n1: i32) -> Option<SD> { Some(sd2(mksdur(s1, n1)?.abs())) }
pub fn k_sd_from_span(neg: bool, h: i64, mi: i64, s: i64, ms: i64, us: i64, ns: i64) -> Option<Option<SD>> {
    let sp = mkspan_time(neg, h, mi, s, ms, us, ns)?;
    Some(SignedDuration::try_from(sp).ok().map(sd2))
}
pub fn k_span_from_sd(s1: i64, n1: i32) -> Option<Option<(i64, i64, i64, i64, i8)>> {
    let a = mksdur(s1, n1)?;
    Some(Span::try_from(a).ok().map(|r| (r.get_seconds(), r.get_milliseconds(), r.get_microseconds(), r.get_nanoseconds(), r.signum())))
}
pub fn k_sd_std(s1: i64, n1: i32) -> Option<Option<(u64, u32)>> {
    let a = mksdur(s1, n1)?;
    Some(core::time::Duration::try_from(a).ok().map(|u| (u.as_secs(), u.subsec_nanos())))
}
pub fn k_std_sd(s: u64, n: u32) -> Option<Option<SD>> {
    if n >= 1_000_000_000 { return None; }
    Some(SignedDuration::try_from(core::time::Duration::new(s, n)).ok().map(sd2))
}
