//! C07 kernels: differences are reversible, balanced and sign-consistent.
use crate::common::*;

/// a.until((largest, b)), a + that span, a.since((largest, b)), plus the exact absolute difference
pub fn k_date_until(y1: i16, m1: i8, d1: i8, y2: i16, m2: i8, d2: i8, largest: u8) -> Option<Option<(SpanCal, SpanTime, Option<D3>, Option<SpanCal>, (i64, i32))>> {
    let a = mkdate((y1, m1, d1))?;
    let b = mkdate((y2, m2, d2))?;
    let u = unit_of(largest)?;
    let s = match a.until((u, b)) { Ok(s) => s, Err(_) => return Some(None) };
    let back = a.checked_add(s).ok().map(d3);
    let since = a.since((u, b)).ok().map(|x| span_cal(&x));
    let dur = a.duration_until(b);
    Some(Some((span_cal(&s), span_time(&s), back, since, (dur.as_secs(), dur.subsec_nanos()))))
}
pub fn k_time_until(h1: i8, mi1: i8, s1: i8, n1: i32, h2: i8, mi2: i8, s2: i8, n2: i32, largest: u8) -> Option<Option<(SpanCal, SpanTime, T4, Option<SpanTime>, (i64, i32))>> {
    let a = mktime((h1, mi1, s1, n1))?;
    let b = mktime((h2, mi2, s2, n2))?;
    let u = unit_of(largest)?;
    let s = match a.until((u, b)) { Ok(s) => s, Err(_) => return Some(None) };
    let back = a.wrapping_add(s);
    let since = a.since((u, b)).ok().map(|x| span_time(&x));
    let dur = a.duration_until(b);
    Some(Some((span_cal(&s), span_time(&s), t4(back), since, (dur.as_secs(), dur.subsec_nanos()))))
}
pub fn k_ts_until(s1: i64, n1: i32, s2: i64, n2: i32, largest: u8) -> Option<Option<(SpanCal, SpanTime, Option<(i64, i32)>, Option<SpanTime>, (i64, i32))>> {
    let a = Timestamp::new(s1, n1).ok()?;
    let b = Timestamp::new(s2, n2).ok()?;
    let u = unit_of(largest)?;
    let s = match a.until((u, b)) { Ok(s) => s, Err(_) => return Some(None) };
    let back = a.checked_add(s).ok().map(|t| (t.as_second(), t.subsec_nanosecond()));
    let since = a.since((u, b)).ok().map(|x| span_time(&x));
    let dur = a.duration_until(b);
    Some(Some((span_cal(&s), span_time(&s), back, since, (dur.as_secs(), dur.subsec_nanos()))))
}
