//! C01 kernels: civil calendar facts.
use crate::common::*;

// ---- shared::util::itime (the Neri-Schneider core)
pub fn k_to_date(n: i32) -> D3 { f::to_date(n) }
pub fn k_step(n: i32) -> (D3, D3) { (f::to_date(n), f::to_date(n.wrapping_add(1))) }
pub fn k_inv(n: i32) -> i32 { f::to_epoch_day(f::to_date(n)) }
pub fn k_to_epoch_day(y: i16, m: i8, d: i8) -> i32 { f::to_epoch_day((y, m, d)) }
pub fn k_epoch_step(y: i16, m: i8, d: i8) -> (i32, Option<(D3, i32)>) {
    (f::to_epoch_day((y, m, d)), f::itomorrow((y, m, d)).map(|t| (t, f::to_epoch_day(t))))
}
pub fn k_weekday_step(n: i32) -> (i8, i8) { (f::epoch_weekday(n), f::epoch_weekday(n.wrapping_add(1))) }
pub fn k_date_weekday(y: i16, m: i8, d: i8) -> (i8, i32) { (f::date_weekday((y, m, d)), f::to_epoch_day((y, m, d))) }
pub fn k_leap(y: i16) -> bool { f::leap(y) }
pub fn k_dim(y: i16, m: i8) -> i8 { f::dim(y, m) }
pub fn k_diy(y: i16) -> i16 { f::diy(y) }
pub fn k_itomorrow(y: i16, m: i8, d: i8) -> (Option<D3>, i32) { (f::itomorrow((y, m, d)), f::to_epoch_day((y, m, d))) }
pub fn k_iyesterday(y: i16, m: i8, d: i8) -> (Option<D3>, i32) { (f::iyesterday((y, m, d)), f::to_epoch_day((y, m, d))) }
pub fn k_itry_new(y: i16, m: i8, d: i8) -> Option<D3> { f::itry_new(y, m, d) }
pub fn k_epoch_checked_add(n: i32, a: i32) -> Option<i32> { f::epoch_checked_add(n, a) }
pub fn k_ichecked_add_days(y: i16, m: i8, d: i8, n: i32) -> (Option<D3>, i32) {
    (f::ichecked_add_days((y, m, d), n), f::to_epoch_day((y, m, d)))
}
pub fn k_ifrom_doy(y: i16, doy: i16) -> (Option<D3>, i32) { (f::ifrom_day_of_year(y, doy), f::to_epoch_day((y, 1, 1))) }
pub fn k_ifrom_doy_no_leap(y: i16, doy: i16) -> (Option<D3>, i32) {
    (f::ifrom_day_of_year_no_leap(y, doy), f::to_epoch_day((y, 1, 1)))
}
pub fn k_inth_weekday_of_month(y: i16, m: i8, d: i8, nth: i8, w: i8) -> Option<(D3, i8)> {
    f::inth_weekday_of_month((y, m, d), nth, w).map(|r| (r, f::date_weekday(r)))
}
pub fn k_weekday_since(a: i8, b: i8) -> i8 { f::weekday_since(a, b) }
pub fn k_weekday_from_sunday_zero(o: i8) -> i8 { f::weekday_from_sunday_zero(o) }

// ---- public civil::Date API
pub fn k_date_new(y: i16, m: i8, d: i8) -> Option<D3> { mkdate((y, m, d)).map(d3) }
pub fn k_date_facts(y: i16, m: i8, d: i8) -> Option<(i8, i16, bool, i8, i16, D3, D3, D3, D3)> {
    let dt = mkdate((y, m, d))?;
    Some((
        dt.weekday().to_monday_one_offset(),
        dt.day_of_year(),
        dt.in_leap_year(),
        dt.days_in_month(),
        dt.days_in_year(),
        d3(dt.first_of_month()),
        d3(dt.last_of_month()),
        d3(dt.first_of_year()),
        d3(dt.last_of_year()),
    ))
}
pub fn k_date_doy_no_leap(y: i16, m: i8, d: i8) -> Option<Option<i16>> {
    Some(mkdate((y, m, d))?.day_of_year_no_leap())
}
pub fn k_date_tomorrow(y: i16, m: i8, d: i8) -> Option<Option<D3>> {
    Some(mkdate((y, m, d))?.tomorrow().ok().map(d3))
}
pub fn k_date_yesterday(y: i16, m: i8, d: i8) -> Option<Option<D3>> {
    Some(mkdate((y, m, d))?.yesterday().ok().map(d3))
}
pub fn k_date_nth_weekday_of_month(y: i16, m: i8, d: i8, nth: i8, w: i8) -> Option<Option<D3>> {
    Some(mkdate((y, m, d))?.nth_weekday_of_month(nth, wd(w)?).ok().map(d3))
}
pub fn k_date_nth_weekday(y: i16, m: i8, d: i8, nth: i32, w: i8) -> Option<Option<D3>> {
    Some(mkdate((y, m, d))?.nth_weekday(nth, wd(w)?).ok().map(d3))
}
pub fn k_date_iso(y: i16, m: i8, d: i8) -> Option<(i16, i8, i8, D3)> {
    let dt = mkdate((y, m, d))?;
    let iso = dt.iso_week_date();
    Some((iso.year(), iso.week(), iso.weekday().to_monday_one_offset(), d3(iso.date())))
}
pub fn k_iso_new(y: i16, w: i8, wday: i8) -> Option<Option<(D3, i16, i8, i8)>> {
    let wk = wd(wday)?;
    Some(ISOWeekDate::new(y, w, wk).ok().map(|iso| {
        let d = iso.date();
        let back = d.iso_week_date();
        (d3(d), back.year(), back.week(), back.weekday().to_monday_one_offset())
    }))
}
pub fn k_iso_facts(y: i16, w: i8, wday: i8) -> Option<Option<(i8, bool, i16)>> {
    let wk = wd(wday)?;
    Some(ISOWeekDate::new(y, w, wk).ok().map(|iso| (iso.weeks_in_year(), iso.in_long_year(), iso.days_in_year())))
}
