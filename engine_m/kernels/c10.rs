//! C10 kernels: rounding datetimes.
use crate::common::*;
use jiff::{SignedDurationRound, TimestampRound};
use jiff::civil::{DateTimeRound, TimeRound};
use jiff::tz::{Offset, OffsetRound};

pub fn k_ts_round(s: i64, ns: i32, ui: u8, mode: u8) -> Option<Option<(i64, i32, i128)>> {
    let t = Timestamp::new(s, ns).ok()?;
    let (u, inc) = unit_inc(ui)?;
    let m = mode_of(mode)?;
    Some(t.round(TimestampRound::new().smallest(u).mode(m).increment(inc)).ok().map(|r| (r.as_second(), r.subsec_nanosecond(), r.as_nanosecond())))
}
pub fn k_sd_round(s: i64, ns: i32, ui: u8, mode: u8) -> Option<Option<(i64, i32)>> {
    let d = mksdur(s, ns)?;
    let (u, inc) = unit_inc(ui)?;
    let m = mode_of(mode)?;
    Some(d.round(SignedDurationRound::new().smallest(u).mode(m).increment(inc)).ok().map(|r| (r.as_secs(), r.subsec_nanos())))
}
pub fn k_time_round(h: i8, mi: i8, s: i8, ns: i32, ui: u8, mode: u8) -> Option<Option<T4>> {
    let t = mktime((h, mi, s, ns))?;
    let (u, inc) = unit_inc(ui)?;
    let m = mode_of(mode)?;
    Some(t.round(TimeRound::new().smallest(u).mode(m).increment(inc)).ok().map(t4))
}
pub fn k_dt_round(y: i16, mo: i8, d: i8, h: i8, mi: i8, s: i8, ns: i32, ui: u8, mode: u8) -> Option<(Option<(D3, T4, i32)>, i32)> {
    let dt = mkdate((y, mo, d))?.to_datetime(mktime((h, mi, s, ns))?);
    let (u, inc) = unit_inc(ui)?;
    let m = mode_of(mode)?;
    Some((dt.round(DateTimeRound::new().smallest(u).mode(m).increment(inc)).ok().map(|r| (d3(r.date()), t4(r.time()), f::to_epoch_day(d3(r.date())))),
          f::to_epoch_day((y, mo, d))))
}
pub fn k_dt_round_day(y: i16, mo: i8, d: i8, h: i8, mi: i8, s: i8, ns: i32, mode: u8) -> Option<(Option<(D3, T4, i32)>, i32)> {
    let dt = mkdate((y, mo, d))?.to_datetime(mktime((h, mi, s, ns))?);
    let m = mode_of(mode)?;
    Some((dt.round(DateTimeRound::new().smallest(Unit::Day).mode(m)).ok().map(|r| (d3(r.date()), t4(r.time()), f::to_epoch_day(d3(r.date())))),
          f::to_epoch_day((y, mo, d))))
}
pub fn k_offset_round(secs: i32, ui: u8, mode: u8) -> Option<Option<i32>> {
    let o = Offset::from_seconds(secs).ok()?;
    let (u, inc) = unit_inc(ui)?;
    let m = mode_of(mode)?;
    Some(o.round(OffsetRound::new().smallest(u).mode(m).increment(inc)).ok().map(|r| r.seconds()))
}
/// illegal increments (symbolic): must be rejected
pub fn k_time_round_inc(h: i8, mi: i8, s: i8, ns: i32, inc: i64, mode: u8) -> Option<(bool, bool, bool)> {
    let t = mktime((h, mi, s, ns))?;
    let m = mode_of(mode)?;
    Some((t.round(TimeRound::new().smallest(Unit::Minute).mode(m).increment(inc)).is_ok(),
          t.round(TimeRound::new().smallest(Unit::Hour).mode(m).increment(inc)).is_ok(),
          t.round(TimeRound::new().smallest(Unit::Millisecond).mode(m).increment(inc)).is_ok()))
}

/// symbolic increments for the types whose increment is not validated against a table
pub fn k_sd_round_inc(s: i64, ns: i32, inc: i64, mode: u8) -> Option<Option<(i64, i32)>> {
    let d = mksdur(s, ns)?;
    let m = mode_of(mode)?;
    Some(d.round(SignedDurationRound::new().smallest(Unit::Second).mode(m).increment(inc)).ok().map(|r| (r.as_secs(), r.subsec_nanos())))
}
