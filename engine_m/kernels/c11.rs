//! C11 kernels: span rounding / balancing / comparison on the *invariant* path
//! (no reference point: units up to hours; with the days-are-24-hours marker: up to weeks).
use crate::common::*;
use jiff::{SpanCompare, SpanRelativeTo, SpanRound};

pub type SpanOut = (SpanCal, SpanTime, i8);
#[inline(always)]
fn so(s: Span) -> SpanOut {
    (span_cal(&s), span_time(&s), s.signum())
}

/// Rounding of the total: a span of seconds and nanoseconds (the other units' contribution to the total is the
/// subject of `k_span_balance_inv`). `lg`: 0..=9 = explicit largest unit, 10 = not set.
pub fn k_span_round_inv(neg: bool, s: i64, ns: i64, ui: u8, lg: u8, mode: u8) -> Option<Option<SpanOut>> {
    let sp = Span::new().try_seconds(s).ok()?.try_nanoseconds(ns).ok()?;
    let sp = if neg { sp.negate() } else { sp };
    let (u, inc) = unit_inc(ui)?;
    let m = mode_of(mode)?;
    let mut r = SpanRound::new().smallest(u).increment(inc).mode(m);
    if lg != 10 {
        r = r.largest(unit_of(lg)?);
    }
    Some(sp.round(r).ok().map(so))
}

/// Balancing only (smallest = nanosecond, increment 1): `largest` symbolic.
pub fn k_span_balance_inv(neg: bool, h: i64, mi: i64, s: i64, ms: i64, us: i64, ns: i64, lg: u8) -> Option<Option<SpanOut>> {
    let sp = mkspan_time(neg, h, mi, s, ms, us, ns)?;
    Some(sp.round(SpanRound::new().largest(unit_of(lg)?)).ok().map(so))
}

/// Days-are-24-hours marker: re-balancing of weeks/days/hours/minutes/nanoseconds to a largest unit.
pub fn k_span_balance_24h(neg: bool, w: i64, d: i64, h: i64, mi: i64, ns: i64, lg: u8) -> Option<Option<SpanOut>> {
    let sp = Span::new().try_weeks(w).ok()?.try_days(d).ok()?.try_hours(h).ok()?.try_minutes(mi).ok()?.try_nanoseconds(ns).ok()?;
    let sp = if neg { sp.negate() } else { sp };
    Some(sp.round(SpanRound::new().largest(unit_of(lg)?).relative(SpanRelativeTo::days_are_24_hours())).ok().map(so))
}

/// Err-iff part of re-balancing with three symbolic units (the six-unit kernels carry the conservation and shape claims)
pub fn k_span_balance_inv_err(neg: bool, h: i64, s: i64, ns: i64, lg: u8) -> Option<Option<SpanOut>> {
    let sp = Span::new().try_hours(h).ok()?.try_seconds(s).ok()?.try_nanoseconds(ns).ok()?;
    let sp = if neg { sp.negate() } else { sp };
    Some(sp.round(SpanRound::new().largest(unit_of(lg)?)).ok().map(so))
}
pub fn k_span_balance_24h_err(neg: bool, w: i64, h: i64, ns: i64, lg: u8) -> Option<Option<SpanOut>> {
    let sp = Span::new().try_weeks(w).ok()?.try_hours(h).ok()?.try_nanoseconds(ns).ok()?;
    let sp = if neg { sp.negate() } else { sp };
    Some(sp.round(SpanRound::new().largest(unit_of(lg)?).relative(SpanRelativeTo::days_are_24_hours())).ok().map(so))
}

/// Days-are-24-hours marker: rounding of the total of a span of days and nanoseconds.
pub fn k_span_round_24h(neg: bool, d: i64, ns: i64, ui: u8, lg: u8, mode: u8) -> Option<Option<SpanOut>> {
    let sp = Span::new().try_days(d).ok()?.try_nanoseconds(ns).ok()?;
    let sp = if neg { sp.negate() } else { sp };
    let (u, inc) = unit_inc(ui)?;
    let m = mode_of(mode)?;
    let r = SpanRound::new().smallest(u).increment(inc).mode(m).largest(unit_of(lg)?).relative(SpanRelativeTo::days_are_24_hours());
    Some(sp.round(r).ok().map(so))
}

/// Days-are-24-hours marker, smallest unit = day or week with a symbolic increment (calendar units take any increment).
pub fn k_span_round_24h_day(neg: bool, d: i64, ns: i64, week: bool, inc: i64, mode: u8) -> Option<Option<SpanOut>> {
    let sp = Span::new().try_days(d).ok()?.try_nanoseconds(ns).ok()?;
    let sp = if neg { sp.negate() } else { sp };
    let m = mode_of(mode)?;
    let u = if week { Unit::Week } else { Unit::Day };
    let r = SpanRound::new().smallest(u).increment(inc).mode(m).largest(u).relative(SpanRelativeTo::days_are_24_hours());
    Some(sp.round(r).ok().map(so))
}

/// Calendar units without a reference are refused (by `round` and `compare`).
pub fn k_span_round_needs_ref(neg: bool, y: i64, mo: i64, w: i64, d: i64, sm: u8, lg: u8) -> Option<(bool, bool)> {
    let sp = mkspan_cal(neg, y, mo, w, d)?;
    let mut r = SpanRound::new().smallest(unit_of(sm)?);
    if lg != 10 {
        r = r.largest(unit_of(lg)?);
    }
    Some((sp.round(r).is_ok(), sp.compare(Span::new()).is_ok()))
}

/// Comparison of two spans of uniform units: the order of their nanosecond totals.
pub fn k_span_compare_inv(n1: bool, h1: i64, mi1: i64, s1: i64, ns1: i64, n2: bool, h2: i64, mi2: i64, s2: i64, ns2: i64) -> Option<Option<i8>> {
    let a = mkspan_time(n1, h1, mi1, s1, 0, 0, ns1)?;
    let b = mkspan_time(n2, h2, mi2, s2, 0, 0, ns2)?;
    Some(a.compare(SpanCompare::from(b)).ok().map(|o| o as i8))
}
