//! C08 kernels: civil date/time arithmetic.
use crate::common::*;

// ---- Time
pub fn k_time_wrapping_add_span(h: i8, mi: i8, s: i8, ns: i32, neg: bool, sh: i64, smi: i64, ss: i64, sms: i64, sus: i64, sns: i64) -> Option<T4> {
    let t = mktime((h, mi, s, ns))?;
    let sp = mkspan_time(neg, sh, smi, ss, sms, sus, sns)?;
    Some(t4(t.wrapping_add(sp)))
}
pub fn k_time_wrapping_sub_span(h: i8, mi: i8, s: i8, ns: i32, neg: bool, sh: i64, smi: i64, ss: i64, sms: i64, sus: i64, sns: i64) -> Option<T4> {
    let t = mktime((h, mi, s, ns))?;
    let sp = mkspan_time(neg, sh, smi, ss, sms, sus, sns)?;
    Some(t4(t.wrapping_sub(sp)))
}
pub fn k_time_checked_add_span(h: i8, mi: i8, s: i8, ns: i32, neg: bool, sh: i64, smi: i64, ss: i64, sms: i64, sus: i64, sns: i64) -> Option<Option<T4>> {
    let t = mktime((h, mi, s, ns))?;
    let sp = mkspan_time(neg, sh, smi, ss, sms, sus, sns)?;
    Some(t.checked_add(sp).ok().map(t4))
}
pub fn k_time_saturating_add_span(h: i8, mi: i8, s: i8, ns: i32, neg: bool, sh: i64, smi: i64, ss: i64, sms: i64, sus: i64, sns: i64) -> Option<T4> {
    let t = mktime((h, mi, s, ns))?;
    let sp = mkspan_time(neg, sh, smi, ss, sms, sus, sns)?;
    Some(t4(t.saturating_add(sp)))
}
pub fn k_time_wrapping_add_sdur(h: i8, mi: i8, s: i8, ns: i32, secs: i64, nanos: i32) -> Option<(T4, T4)> {
    let t = mktime((h, mi, s, ns))?;
    let d = mksdur(secs, nanos)?;
    Some((t4(t.wrapping_add(d)), t4(t.wrapping_sub(d))))
}
pub fn k_time_checked_add_sdur(h: i8, mi: i8, s: i8, ns: i32, secs: i64, nanos: i32) -> Option<(Option<T4>, T4)> {
    let t = mktime((h, mi, s, ns))?;
    let d = mksdur(secs, nanos)?;
    Some((t.checked_add(d).ok().map(t4), t4(t.saturating_add(d))))
}
pub fn k_time_wrapping_add_udur(h: i8, mi: i8, s: i8, ns: i32, secs: u64, nanos: u32) -> Option<(T4, T4)> {
    let t = mktime((h, mi, s, ns))?;
    if nanos >= 1_000_000_000 { return None; }
    let d = core::time::Duration::new(secs, nanos);
    Some((t4(t.wrapping_add(d)), t4(t.wrapping_sub(d))))
}

// ---- Date
pub fn k_date_add_cal(y: i16, m: i8, d: i8, neg: bool, sy: i64, smo: i64, sw: i64, sd: i64) -> Option<Option<D3>> {
    let dt = mkdate((y, m, d))?;
    let sp = mkspan_cal(neg, sy, smo, sw, sd)?;
    Some(dt.checked_add(sp).ok().map(d3))
}
pub fn k_date_add_ym(y: i16, m: i8, d: i8, neg: bool, sy: i64, smo: i64) -> Option<Option<D3>> {
    let dt = mkdate((y, m, d))?;
    let sp = mkspan_cal(neg, sy, smo, 0, 0)?;
    Some(dt.checked_add(sp).ok().map(d3))
}
pub fn k_date_add_wd(y: i16, m: i8, d: i8, neg: bool, sw: i64, sd: i64) -> Option<(Option<(D3, i32)>, i32)> {
    let dt = mkdate((y, m, d))?;
    let sp = mkspan_cal(neg, 0, 0, sw, sd)?;
    Some((dt.checked_add(sp).ok().map(|r| (d3(r), f::to_epoch_day(d3(r)))), f::to_epoch_day((y, m, d))))
}
pub fn k_date_sub_cal(y: i16, m: i8, d: i8, neg: bool, sy: i64, smo: i64, sw: i64, sd: i64) -> Option<Option<D3>> {
    let dt = mkdate((y, m, d))?;
    let sp = mkspan_cal(neg, sy, smo, sw, sd)?;
    Some(dt.checked_sub(sp).ok().map(d3))
}
pub fn k_date_saturating_add_cal(y: i16, m: i8, d: i8, neg: bool, sy: i64, smo: i64, sw: i64, sd: i64) -> Option<D3> {
    let dt = mkdate((y, m, d))?;
    let sp = mkspan_cal(neg, sy, smo, sw, sd)?;
    Some(d3(dt.saturating_add(sp)))
}
pub fn k_date_add_days_hours(y: i16, m: i8, d: i8, neg: bool, sd: i64, sh: i64, sns: i64) -> Option<Option<D3>> {
    let dt = mkdate((y, m, d))?;
    let sp = mkspan_full(neg, 0, 0, 0, sd, sh, 0, 0, sns)?;
    Some(dt.checked_add(sp).ok().map(d3))
}
pub fn k_date_add_sdur(y: i16, m: i8, d: i8, secs: i64, nanos: i32) -> Option<(Option<D3>, D3)> {
    let dt = mkdate((y, m, d))?;
    let du = mksdur(secs, nanos)?;
    Some((dt.checked_add(du).ok().map(d3), d3(dt.saturating_add(du))))
}

// ---- DateTime
pub fn k_dt_add_span(y: i16, m: i8, d: i8, h: i8, mi: i8, s: i8, ns: i32,
                     neg: bool, sy: i64, smo: i64, sw: i64, sd: i64, sh: i64, smi: i64, ss: i64, sns: i64) -> Option<Option<(D3, T4)>> {
    let dt = mkdate((y, m, d))?.to_datetime(mktime((h, mi, s, ns))?);
    let sp = mkspan_full(neg, sy, smo, sw, sd, sh, smi, ss, sns)?;
    Some(dt.checked_add(sp).ok().map(|r| (d3(r.date()), t4(r.time()))))
}
pub fn k_dt_sub_span(y: i16, m: i8, d: i8, h: i8, mi: i8, s: i8, ns: i32,
                     neg: bool, sy: i64, smo: i64, sw: i64, sd: i64, sh: i64, smi: i64, ss: i64, sns: i64) -> Option<Option<(D3, T4)>> {
    let dt = mkdate((y, m, d))?.to_datetime(mktime((h, mi, s, ns))?);
    let sp = mkspan_full(neg, sy, smo, sw, sd, sh, smi, ss, sns)?;
    Some(dt.checked_sub(sp).ok().map(|r| (d3(r.date()), t4(r.time()))))
}
pub fn k_dt_add_sdur(y: i16, m: i8, d: i8, h: i8, mi: i8, s: i8, ns: i32, secs: i64, nanos: i32) -> Option<(Option<(D3, T4)>, (D3, T4))> {
    let dt = mkdate((y, m, d))?.to_datetime(mktime((h, mi, s, ns))?);
    let du = mksdur(secs, nanos)?;
    let sat = dt.saturating_add(du);
    Some((dt.checked_add(du).ok().map(|r| (d3(r.date()), t4(r.time()))), (d3(sat.date()), t4(sat.time()))))
}
