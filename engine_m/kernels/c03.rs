//! C03 / C04 / C14 kernels for POSIX TZ rules (shared::posix), rule given field by field.
use crate::common::*;

pub fn k_posix_consistent(std: i32, dst: i32, sk: u8, sa: i16, sb: i8, sc: i8, st: i32, ek: u8, ea: i16, eb: i8, ec: i8, et: i32,
                          s: i64, ns: i32) -> (i32, i32, bool, bool) {
    let tz = f::posix_tz(std, dst, sk, sa, sb, sc, st, ek, ea, eb, ec, et);
    f::posix_offsets(&tz, s, ns)
}
/// "EST5EDT,M3.2.0,M11.1.0": the instant's offset/dst plus the UTC year of the instant
pub fn k_posix_us(s: i64, ns: i32) -> ((i32, i32, bool, bool), i16) {
    let tz = f::posix_tz(-18000, -14400, 2, 3, 2, 0, 7200, 2, 11, 1, 0, 7200);
    (f::posix_offsets(&tz, s, ns), (f::ts_to_datetime(s, ns, 0).0).0)
}
/// southern hemisphere, half-hour DST: "<+1030>-10:30<+11>-11,M10.1.0,M4.1.0"
pub fn k_posix_lhi(s: i64, ns: i32) -> ((i32, i32, bool, bool), i16) {
    let tz = f::posix_tz(37800, 39600, 2, 10, 1, 0, 7200, 2, 4, 1, 0, 7200);
    (f::posix_offsets(&tz, s, ns), (f::ts_to_datetime(s, ns, 0).0).0)
}
pub fn k_posix_us_next(s: i64, ns: i32) -> (Option<(i64, i32, i32, bool)>, i16) {
    let tz = f::posix_tz(-18000, -14400, 2, 3, 2, 0, 7200, 2, 11, 1, 0, 7200);
    (f::posix_next(&tz, s, ns), (f::ts_to_datetime(s, ns, 0).0).0)
}
pub fn k_posix_us_prev(s: i64, ns: i32) -> (Option<(i64, i32, i32, bool)>, i16) {
    let tz = f::posix_tz(-18000, -14400, 2, 3, 2, 0, 7200, 2, 11, 1, 0, 7200);
    (f::posix_prev(&tz, s, ns), (f::ts_to_datetime(s, ns, 0).0).0)
}
pub fn k_posix_us_ambiguous(y: i16, m: i8, d: i8, h: i8, mi: i8, sec: i8, ns: i32) -> (u8, i32, i32) {
    let tz = f::posix_tz(-18000, -14400, 2, 3, 2, 0, 7200, 2, 11, 1, 0, 7200);
    f::posix_ambiguous(&tz, (y, m, d), (h, mi, sec, ns))
}
/// "EST5EDT,M3.2.0/0,M11.1.0/0": switches at local midnight (the fold starts on the previous civil day)
pub fn k_posix_mid_ambiguous(y: i16, m: i8, d: i8, h: i8, mi: i8, sec: i8, ns: i32) -> (u8, i32, i32) {
    let tz = f::posix_tz(-18000, -14400, 2, 3, 2, 0, 0, 2, 11, 1, 0, 0);
    f::posix_ambiguous(&tz, (y, m, d), (h, mi, sec, ns))
}
/// "CAT-2WAT-1,M4.1.0,M9.1.0": negative DST (clocks go back at the start, forward at the end), not wrapping the year
pub fn k_posix_neg_ambiguous(y: i16, m: i8, d: i8, h: i8, mi: i8, sec: i8, ns: i32) -> (u8, i32, i32) {
    let tz = f::posix_tz(7200, 3600, 2, 4, 1, 0, 7200, 2, 9, 1, 0, 7200);
    f::posix_ambiguous(&tz, (y, m, d), (h, mi, sec, ns))
}
