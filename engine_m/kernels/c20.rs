//! C20 / C13 / C06 kernels for fixed-offset time zones (integer-only tagged handle).
use crate::common::*;
use jiff::tz::{Offset, TimeZone};
use jiff::Zoned;

/// TimeZone::fixed(o): the packed offset comes back exactly; queries answer it for any instant;
/// equality is reflexive and stable under clone.
pub fn k_tz_fixed(off: i32, s: i64, ns: i32) -> Option<(Option<i32>, i32, bool, bool, bool)> {
    let o = Offset::from_seconds(off).ok()?;
    let ts = Timestamp::new(s, ns).ok()?;
    let tz = TimeZone::fixed(o);
    let fo = tz.to_fixed_offset().ok().map(|x| x.seconds());
    let at = tz.to_offset(ts).seconds();
    let tz2 = tz.clone();
    let same = tz == tz2;
    let fo2 = tz2.to_fixed_offset().ok().map(|x| x.seconds());
    Some((fo, at, same, fo2 == fo, tz == tz))
}
/// two fixed zones are equal iff their offsets are
pub fn k_tz_fixed_eq(off1: i32, off2: i32) -> Option<bool> {
    let a = TimeZone::fixed(Offset::from_seconds(off1).ok()?);
    let b = TimeZone::fixed(Offset::from_seconds(off2).ok()?);
    Some(a == b)
}
/// C13 for fixed zones: Zoned::new(ts, fixed(o)) is consistent: offset == o, civil == ts shifted by o
pub fn k_zoned_fixed_new(s: i64, ns: i32, off: i32) -> Option<(i32, D3, T4, (i64, i32), i32)> {
    let o = Offset::from_seconds(off).ok()?;
    let ts = Timestamp::new(s, ns).ok()?;
    let z = Zoned::new(ts, TimeZone::fixed(o));
    let dt = z.datetime();
    let t = z.timestamp();
    Some((z.offset().seconds(), d3(dt.date()), t4(dt.time()), (t.as_second(), t.subsec_nanosecond()), f::to_epoch_day(d3(dt.date()))))
}
