//! C20 / C13 / C06 kernels for fixed-offset time zones (integer-only tagged handle).
use crate::common::*;
use jiff::tz::{Offset, TimeZone};
use jiff::Zoned;

/// TimeZone::fixed(o): the packed offset comes back exactly; queries answer it for any instant;
/// equality is reflexive and stable under clone.
pub fn k_tz_fixed(off: i32, s: i64, ns: i32) -> Option<(Option<i32>, i32, bool, bool, bool)> {
    let o = Offset::from_seconds(off).ok()?;
    let ts = Timestamp::new(s, ns).ok()?;
    let tz = TimeZone::fixed(o);
    let fo = tz.to_fixed_offset().ok().map(|x| x.seconds());
    let at = tz.to_offset(ts).seconds();
    let tz2 = tz.clone();
    let same = tz == tz2;
    let fo2 = tz2.to_fixed_offset().ok().map(|x| x.seconds());
    Some((fo, at, same, fo2 == fo, tz == tz))
}
/// two fixed zones are equal iff their offsets are
pub fn k_tz_fixed_eq(off1: i32, off2: i32) -> Option<bool> {
    let a = TimeZone::fixed(Offset::from_seconds(off1).ok()?);
    let b = TimeZone::fixed(Offset::from_seconds(off2).ok()?);
    Some(a == b)
}
/// C13 for fixed zones: Zoned::new(ts, fixed(o)) is consistent: offset == o, civil == ts shifted by o
pub fn k_zoned_fixed_new(s: i64, ns: i32, off: i32) -> Option<(i32, D3, T4, (i64, i32), i32)> {
    let o = Offset::from_seconds(off).ok()?;
    let ts = Timestamp::new(s, ns).ok()?;
    let z = Zoned::new(ts, TimeZone::fixed(o));
    let dt = z.datetime();
    let t = z.timestamp();
    Some((z.offset().seconds(), d3(dt.date()), t4(dt.time()), (t.as_second(), t.subsec_nanosecond()), f::to_epoch_day(d3(dt.date()))))
}

/// C13: equality and ordering of Zoned values depend on the instant only (any two fixed zones)
pub fn k_zoned_fixed_cmp(s1: i64, n1: i32, o1: i32, s2: i64, n2: i32, o2: i32) -> Option<(bool, i8, bool)> {
    let a = Zoned::new(Timestamp::new(s1, n1).ok()?, TimeZone::fixed(Offset::from_seconds(o1).ok()?));
    let b = Zoned::new(Timestamp::new(s2, n2).ok()?, TimeZone::fixed(Offset::from_seconds(o2).ok()?));
    Some((a == b, a.cmp(&b) as i8, a.partial_cmp(&b) == Some(a.cmp(&b))))
}

// ---- C06 for fixed-offset zones
type TS = (i64, i32);
#[inline(always)]
fn zts(z: &Zoned) -> TS { let t = z.timestamp(); (t.as_second(), t.subsec_nanosecond()) }

/// time-unit span and absolute duration: the instant moves by exactly that many nanoseconds; zone kept
pub fn k_zoned_fixed_add_time(s: i64, ns: i32, off: i32, neg: bool, h: i64, mi: i64, sec: i64, ms: i64, us: i64, nanos: i64) -> Option<(Option<(TS, i32)>, Option<(TS, i32)>)> {
    let o = Offset::from_seconds(off).ok()?;
    let z = Zoned::new(Timestamp::new(s, ns).ok()?, TimeZone::fixed(o));
    let sp = mkspan_time(neg, h, mi, sec, ms, us, nanos)?;
    let a = z.checked_add(sp).ok().map(|r| (zts(&r), r.offset().seconds()));
    let b = z.checked_sub(sp).ok().map(|r| (zts(&r), r.offset().seconds()));
    Some((a, b))
}
pub fn k_zoned_fixed_add_sdur(s: i64, ns: i32, off: i32, ds: i64, dn: i32) -> Option<Option<(TS, i32)>> {
    let o = Offset::from_seconds(off).ok()?;
    let z = Zoned::new(Timestamp::new(s, ns).ok()?, TimeZone::fixed(o));
    let d = mksdur(ds, dn)?;
    Some(z.checked_add(d).ok().map(|r| (zts(&r), r.offset().seconds())))
}
/// weeks and days in a fixed-offset zone are exactly 7*24h and 24h
pub fn k_zoned_fixed_add_days(s: i64, ns: i32, off: i32, neg: bool, w: i64, d: i64) -> Option<Option<(TS, i32)>> {
    let o = Offset::from_seconds(off).ok()?;
    let z = Zoned::new(Timestamp::new(s, ns).ok()?, TimeZone::fixed(o));
    let sp = mkspan_cal(neg, 0, 0, w, d)?;
    Some(z.checked_add(sp).ok().map(|r| (zts(&r), r.offset().seconds())))
}
/// the split of a span into its calendar part and its time part, as `Zoned::checked_add` does it
pub fn k_span_split(neg: bool, mo: i64, d: i64, h: i64, ms: i64, us: i64, ns: i64) -> Option<((SpanCal, SpanTime, i8), (SpanCal, SpanTime, i8))> {
    let sp = Span::new().try_months(mo).ok()?.try_days(d).ok()?.try_hours(h).ok()?.try_milliseconds(ms).ok()?.try_microseconds(us).ok()?.try_nanoseconds(ns).ok()?;
    let sp = if neg { sp.negate() } else { sp };
    let t = f::span_only_time(sp);
    let c = f::span_only_calendar(sp);
    Some(((span_cal(&t), span_time(&t), t.signum()), (span_cal(&c), span_time(&c), c.signum())))
}
/// a span mixing a calendar unit (days) with time units: days on the wall clock (24 h each in a fixed zone),
/// then the time units as exact elapsed time
pub fn k_zoned_fixed_add_mixed(s: i64, ns: i32, off: i32, neg: bool, d: i64, h: i64, us: i64, nanos: i64) -> Option<Option<(TS, i32)>> {
    let o = Offset::from_seconds(off).ok()?;
    let z = Zoned::new(Timestamp::new(s, ns).ok()?, TimeZone::fixed(o));
    let sp = Span::new().try_days(d).ok()?.try_hours(h).ok()?.try_microseconds(us).ok()?.try_nanoseconds(nanos).ok()?;
    let sp = if neg { sp.negate() } else { sp };
    Some(z.checked_add(sp).ok().map(|r| (zts(&r), r.offset().seconds())))
}
/// start of day = the instant of civil midnight of the same civil date
pub fn k_zoned_fixed_start_of_day(s: i64, ns: i32, off: i32) -> Option<Option<(TS, T4, i32)>> {
    let o = Offset::from_seconds(off).ok()?;
    let z = Zoned::new(Timestamp::new(s, ns).ok()?, TimeZone::fixed(o));
    let tod = t4(z.time());
    Some(z.start_of_day().ok().map(|r| (zts(&r), tod, r.offset().seconds())))
}
