"""Regenerates /verif/MANIFEST.json from /verif/claims.json (one place to edit)."""
import json, os
V = os.path.dirname(os.path.dirname(os.path.abspath(__file__)))
c = json.load(open(os.path.join(V, "claims.json")))
checks = []
for pid, d in sorted(c["claimed"].items()):
    checks.append({
        "property_id": pid,
        "quick_cmd": "./check %s --tier quick" % pid,
        "thorough_cmd": "./check %s --tier thorough" % pid,
        "evidence_file": "evidence/%s.json" % pid,
        "replay_cmd_template": "./check %s --replay {path}" % pid,
        "engine": d["engine"],
        "level_claimed": {"category": "proof", "text": d["level"], "design_ref": d.get("design_ref", "DESIGN.md §3 " + pid)},
        "level_note": d["note"],
        "technique": d["technique"],
    })
props = [json.loads(l)["id"] for l in open(os.path.join(V, "properties.jsonl"))]
na = [{"property_id": p, "reason": c["not_applicable"][p]} for p in props if p not in c["claimed"]]
m = {
    "version": 1,
    "setup_cmd": "true",
    "hooks": c["hooks"],
    "engines": c["engines"],
    "checks": checks,
    "not_applicable": na,
    "notes": c["notes"],
}
json.dump(m, open(os.path.join(V, "MANIFEST.json"), "w"), indent=1)
print("claimed", sorted(c["claimed"]), "n/a", [x["property_id"] for x in na])
