"""Specification helpers for engine M: kernel descriptors, output navigation and
the *reference models* (written from the definitions, not from jiff's code)."""
import re

import z3
from z3 import And, Or, Not, If, Implies, IntVal, BoolVal

from mirenc import VInt, VBool, VAgg, VEnum, VOpaque, VUninit, STD_ENUMS, INT_TYPES, ty_range

MIN_DAY = -4371587      # -9999-01-01
MAX_DAY = 2932896       # 9999-12-31
TS_MIN_S = -377705023201
TS_MAX_S = 253402207200
OFF_MAX = 93599         # 25:59:59
NS = 1000000000


class K:
    """Kernel descriptor.
    name:   'module::fn' in the vkern crate
    pre:    lambda a -> z3 Bool, the precondition (a = list of input terms)
    claims: [(label, lambda a, o -> z3 Bool)]; each must hold whenever pre holds and the kernel returns
    windows: optional lambda a -> [z3 Bool]: case split whose union must cover pre (checked)
    allow_panic: regexes of panic labels that are *documented* panics, not checked
    witnesses: [(label, lambda a, o -> z3 Bool)] conditions that must be satisfiable (vacuity guards)
    variants: which build variants to encode ('rel' = debug-assertions off, 'dbg' = on)
    """

    def __init__(self, name, pre=None, claims=(), windows=None, allow_panic=(), witnesses=(),
                 variants=("rel",), note="", vectors=(), timeout=None, nopanic=True, equal_variants=False,
                 tier="quick", solvers=None, bounds=None, split=None, known=(), probe_only=False):
        self.name = name
        self.pre = pre or (lambda a: BoolVal(True))
        self.claims = list(claims)
        self.windows = windows
        self.allow_panic = [re.compile(x) for x in allow_panic]
        self.witnesses = list(witnesses)
        self.variants = variants
        self.note = note
        self.vectors = list(vectors)
        self.timeout = timeout
        self.nopanic = nopanic
        self.equal_variants = equal_variants
        self.tier = tier
        self.solvers = solvers
        # bounds: {arg index: (lo, hi)} interval hints for the encoder. They must be implied by
        # `pre` (checked by the driver: pre /\ not(bounds) must be unsat).
        # split: (arg index, n) -> the bounds interval of that argument is cut into n boxes and
        # the kernel is re-encoded per box (tighter intervals => most wrap/ite terms vanish).
        self.bounds = bounds or {}
        self.split = split
        # known: [(finding id, role)] with role = lambda a -> z3 Bool over the inputs. Claims are proved
        # outside every role; inside a role a violating, natively replayed witness is reported as
        # KNOWN-FINDING (and nothing is reported if the defect no longer reproduces).
        self.known = list(known)
        # probe_only: do not prove the claims here (another entry does, on a narrower domain); only
        # look for the known findings' witnesses
        self.probe_only = probe_only

    def boxes(self, tier="quick"):
        """split: (arg index, n) or a list of such pairs (product of the cuts)"""
        if not self.split:
            return [dict(self.bounds)] if self.bounds else [None]
        splits = self.split if isinstance(self.split, list) else [self.split]
        out = [dict(self.bounds)]
        for idx, n in splits:
            if isinstance(n, dict):
                n = n.get(tier, n.get("thorough" if tier == "deep" else "quick", n.get("quick")))
            lo, hi = self.bounds[idx]
            span = hi - lo + 1
            step = (span + n - 1) // n
            cuts = []
            a = lo
            while a <= hi:
                b = min(a + step - 1, hi)
                cuts.append((a, b))
                a = b + 1
            nxt = []
            for bx in out:
                for c in cuts:
                    b2 = dict(bx)
                    b2[idx] = c
                    nxt.append(b2)
            out = nxt
        return out


class Out:
    """Navigation over an encoder value (symbolic or concrete)."""

    def __init__(self, v):
        self.v = v

    @property
    def i(self):
        if isinstance(self.v, VInt):
            return self.v.t
        raise TypeError("not an int: %r" % (self.v,))

    @property
    def b(self):
        if isinstance(self.v, VBool):
            return self.v.t
        raise TypeError("not a bool: %r" % (self.v,))

    def __getitem__(self, k):
        if isinstance(self.v, VAgg):
            return Out(self.v.f[k])
        raise TypeError("not an aggregate: %r" % (self.v,))

    def __len__(self):
        return len(self.v.f)

    def ints(self):
        """flatten nested tuples of ints to a list of terms"""
        out = []

        def rec(v):
            if isinstance(v, VInt):
                out.append(v.t)
            elif isinstance(v, VBool):
                out.append(v.t)
            elif isinstance(v, VAgg):
                for k in sorted(v.f):
                    rec(v.f[k])
            else:
                raise TypeError("ints() over %r" % (v,))
        rec(self.v)
        return out

    def is_(self, name):
        if isinstance(self.v, VEnum):
            return self.v.discr == self.v.dmap[name]
        raise TypeError("not an enum: %r" % (self.v,))

    @property
    def is_some(self):
        return self.is_("Some")

    @property
    def is_none(self):
        return self.is_("None")

    @property
    def is_ok(self):
        return self.is_("Ok")

    @property
    def is_err(self):
        return self.is_("Err")

    def get(self, name, idx=0):
        pl = self.v.variants.get(name)
        if pl is None or idx not in pl:
            # variant never constructed on any path: any claim about its payload is vacuous;
            # return a poisoned value that makes misuse visible
            raise KeyError("variant %s never constructed by the kernel" % name)
        return Out(pl[idx])

    @property
    def some(self):
        return self.get("Some")

    @property
    def ok(self):
        return self.get("Ok")

    def has_variant(self, name):
        return isinstance(self.v, VEnum) and name in self.v.variants and bool(self.v.variants[name])


# ---------------------------------------------------------------- reference calendar
# Textbook proleptic Gregorian rules. Division by constants uses z3's `div`/`mod`
# (floor / euclidean for positive divisors), i.e. the mathematical definitions.

def fdiv(a, d):
    return a / d if not isinstance(a, int) else IntVal(a // d)


def fmod(a, d):
    return a % d if not isinstance(a, int) else IntVal(a % d)


def ref_is_leap(y):
    return And(y % 4 == 0, Or(y % 100 != 0, y % 400 == 0))


def ref_dim(y, m):
    return If(Or(m == 1, m == 3, m == 5, m == 7, m == 8, m == 10, m == 12), 31,
              If(Or(m == 4, m == 6, m == 9, m == 11), 30,
                 If(ref_is_leap(y), 29, 28)))


def ref_valid_date(y, m, d):
    return And(y >= -9999, y <= 9999, m >= 1, m <= 12, d >= 1, d <= ref_dim(y, m))


def ref_succ(y, m, d):
    """(y', m', d') of the next calendar day"""
    last = d == ref_dim(y, m)
    ny = If(And(last, m == 12), y + 1, y)
    nm = If(last, If(m == 12, 1, m + 1), m)
    nd = If(last, 1, d + 1)
    return ny, nm, nd


def ref_pred(y, m, d):
    first = d == 1
    py = If(And(first, m == 1), y - 1, y)
    pm = If(first, If(m == 1, 12, m - 1), m)
    pd = If(first, ref_dim(py, pm), d - 1)
    return py, pm, pd


CUM_NOLEAP = [0, 31, 59, 90, 120, 151, 181, 212, 243, 273, 304, 334]


def ref_days_before_month(y, m):
    t = IntVal(CUM_NOLEAP[11])
    for k in range(10, -1, -1):
        t = If(m == k + 1, CUM_NOLEAP[k], t)
    return t + If(And(m > 2, ref_is_leap(y)), 1, 0)


def ref_days_before_year(y):
    """days from 0000-01-01 (proleptic) to y-01-01: 365*y + leap years in [0, y)"""
    ym = y - 1
    return 365 * y + (ym / 4 - ym / 100 + ym / 400) + 1  # year 0 is leap; formula valid for any integer y with floor division


DAYS_0000_TO_1970 = 719528


def ref_epoch_day(y, m, d):
    """independent closed form (civil-from-days textbook): days since 1970-01-01"""
    return ref_days_before_year(y) + ref_days_before_month(y, m) + (d - 1) - DAYS_0000_TO_1970


def ref_weekday_monday1(epoch_day):
    """1970-01-01 is a Thursday (=4 with Monday=1)"""
    return (epoch_day + 3) % 7 + 1


def in_range(x, lo, hi):
    return And(x >= lo, x <= hi)


def eq3(a, b):
    return And(a[0] == b[0], a[1] == b[1], a[2] == b[2])


def date_lt(a, b):
    return Or(a[0] < b[0], And(a[0] == b[0], Or(a[1] < b[1], And(a[1] == b[1], a[2] < b[2]))))


def nanos_of_day(h, mi, s, ns):
    return ((h * 60 + mi) * 60 + s) * NS + ns


def ref_valid_time(h, mi, s, ns):
    return And(h >= 0, h <= 23, mi >= 0, mi <= 59, s >= 0, s <= 59, ns >= 0, ns <= 999999999)


def windows_int(x, lo, hi, n):
    """n contiguous windows covering [lo, hi] for term x"""
    span = hi - lo + 1
    step = (span + n - 1) // n
    out = []
    a = lo
    while a <= hi:
        b = min(a + step - 1, hi)
        out.append(And(x >= a, x <= b))
        a = b + 1
    return out


# ---------------------------------------------------------------- Span limits (documented)
LIM = {
    "years": 19998, "months": 239976, "weeks": 1043497, "days": 7304484, "hours": 175307616,
    "minutes": 10518456960, "seconds": 631107417600, "milliseconds": 631107417600000,
    "microseconds": 631107417600000000, "nanoseconds": 9223372036854775807,
}
DAY_NS = 86400 * NS
HOUR_NS = 3600 * NS
MIN_NS = 60 * NS


def sgn(neg):
    return If(neg, -1, 1)


def ref_add_months(y, m, d, dy, dm):
    """add years+months with day clamped to the target month length -> (y', m', d')"""
    total = y * 12 + (m - 1) + dy * 12 + dm
    y2 = total / 12
    m2 = total % 12 + 1
    dim = ref_dim(y2, m2)
    d2 = If(d > dim, dim, d)
    return y2, m2, d2


def opt_is(o, cond, pred):
    """Option value: Some iff cond, and when Some its payload satisfies pred(payload Out)"""
    if not o.has_variant("Some"):
        return Not(cond)
    return If(cond, And(o.is_some, pred(o.some)), o.is_none)
