"""CLI for engine M: python3-vt lib/mcheck.py <PID> [--tier quick|thorough] [--only regex] [--keep]"""
import argparse, importlib.util, json, os, sys
HERE = os.path.dirname(os.path.abspath(__file__))
sys.path.insert(0, HERE)
import mdriver

def load_spec(pid):
    p = os.path.join(mdriver.VERIF, "engine_m", "specs", pid + ".py")
    spec = importlib.util.spec_from_file_location("spec_" + pid, p)
    m = importlib.util.module_from_spec(spec)
    spec.loader.exec_module(m)
    return m

def main():
    ap = argparse.ArgumentParser()
    ap.add_argument("pid")
    ap.add_argument("--tier", default=os.environ.get("VERIF_TIER", "quick"))
    ap.add_argument("--only")
    ap.add_argument("--keep", action="store_true")
    ap.add_argument("--timeout", type=int)
    ap.add_argument("--dump")
    a = ap.parse_args()
    seed = int(os.environ.get("VERIF_SEED", "0"))
    m = load_spec(a.pid)
    to = a.timeout or (120 if a.tier == "quick" else 1200)
    R = mdriver.run_property(a.pid, m.KERNELS, m.MODULES, a.tier, seed, to, scratch_keep=a.keep, only=a.only)
    for r in R["kernels"]:
        print("==", r["kernel"], r["variant"], r["status"], r.get("reason", ""), r.get("stats", {}).get("mir_lines"), "lines")
        if r.get("validation"):
            print("   validation: %d vectors, %d mismatches" % (r["validation"]["vectors"], len(r["validation"]["mismatches"])))
            for mm in r["validation"]["mismatches"][:3]:
                print("      MISMATCH", mm)
        for q in r.get("obligations", []):
            print("   [%s] %-7s %-12s %6.2fs  %s" % (q["kind"], q["result"], q.get("solver"), q.get("secs") or 0, q["label"][:110]))
    print("violations:", json.dumps(R["violations"], indent=1)[:3000])
    print("inconclusive:", json.dumps(R["inconclusive"], indent=1, default=str)[:6000])
    print("refused:", R["refused"])
    print("build:", R["build"], "wall", R["wall_s"])
    if a.dump:
        json.dump(R, open(a.dump, "w"), indent=1, default=str)

if __name__ == "__main__":
    main()
