"""Evidence files, known findings, exit codes (shared by engines M and K)."""
import json
import os
import time

VERIF = os.path.dirname(os.path.dirname(os.path.abspath(__file__)))
KNOWN_PATH = os.path.join(VERIF, "known_findings.json")


def load_known():
    if not os.path.exists(KNOWN_PATH):
        return []
    return json.load(open(KNOWN_PATH)).get("findings", [])


def match_known(pid, violation, known):
    """A violation matches a *known* (not fixed) finding when the property, the
    check unit (kernel/harness) and the role predicate over the concrete
    counterexample agree. `role.expr` is a python expression over the replay
    inputs `a` (list of ints) evaluated with no builtins."""
    for kf in known:
        if kf.get("status") != "known" or kf.get("property") != pid:
            continue
        role = kf.get("role", {})
        unit = violation.get("kernel") or violation.get("harness")
        if role.get("unit") and role["unit"] != unit:
            continue
        if role.get("query") and role["query"] not in (violation.get("query") or ""):
            continue
        expr = role.get("expr")
        if expr:
            a = (violation.get("replay") or {}).get("inputs")
            try:
                if not eval(expr, {"__builtins__": {}}, {"a": a, "abs": abs, "min": min, "max": max}):
                    continue
            except Exception:
                continue
        return kf
    return None


def write_replay(pid, idx, violation):
    d = os.path.join(VERIF, "evidence", "replay")
    os.makedirs(d, exist_ok=True)
    p = os.path.join(d, "%s_%d.json" % (pid, idx))
    json.dump(violation, open(p, "w"), indent=1, default=str)
    return p


def finish(pid, tier, seed, parts, wall_s, level_text, trusted_base, checker_cmd, assumptions):
    """parts: list of engine result dicts (R from mdriver / kdriver). Writes the evidence
    file, prints VIOLATION / KNOWN-FINDING lines, returns the exit code."""
    known = load_known()
    obligations = 0
    discharged = 0
    samples = []
    violations = []
    inconclusive = []
    refused = []
    units = []
    solver_secs = 0.0
    nvec = 0
    nmis = 0
    for R in parts:
        violations += [dict(v, engine=R.get("engine")) for v in R.get("violations", [])]
        inconclusive += [dict(v, engine=R.get("engine")) for v in R.get("inconclusive", [])]
        refused += R.get("refused", [])
        for k in R.get("kernels", []):
            u = {"unit": k.get("kernel") or k.get("harness"), "engine": R.get("engine"), "variant": k.get("variant"),
                 "status": k.get("status")}
            st = k.get("stats") or {}
            for key in ("mir_lines", "blocks", "stmts", "divmods", "bitblasts", "nonlinear", "defs", "opaque_calls", "inlined_calls", "inlined",
                        "unwind", "cbmc_properties", "secs", "vcc", "stubs"):
                if key in st:
                    u[key] = st[key]
            if k.get("boxes"):
                u["boxes"] = k["boxes"]
            if k.get("notes"):
                u["notes"] = k["notes"][:12]
            if k.get("validation"):
                u["validation_vectors"] = k["validation"]["vectors"]
                u["validation_mismatches"] = len(k["validation"]["mismatches"])
                nvec += k["validation"]["vectors"]
                nmis += len(k["validation"]["mismatches"])
            qs = k.get("obligations", [])
            u["queries"] = len(qs)
            by = {}
            for q in qs:
                if q.get("expect") == "either":
                    by["known_finding_probe_" + str(q.get("result"))] = by.get("known_finding_probe_" + str(q.get("result")), 0) + 1
                    continue
                if q.get("expect") == "sat":
                    key = "witness_sat" if q.get("result") == "sat" else "witness_missing"
                else:
                    obligations += 1
                    if q.get("result") == "unsat":
                        discharged += 1
                    key = q.get("result")
                by[key] = by.get(key, 0) + 1
                solver_secs += q.get("secs") or 0
                if q.get("kind") in ("claim", "property") and len(samples) < 40 and not any(s.get("unit") == u["unit"] and s.get("label", "")[:40] == q["label"][:40] for s in samples):
                    samples.append({"unit": u["unit"], "kind": q["kind"], "label": q["label"][:200], "result": q.get("result"),
                                    "solver": q.get("solver"), "secs": q.get("secs")})
            u["results"] = by
            units.append(u)
    # classify violations against the known-findings file
    new_viol = []
    known_hits = []
    for v in violations:
        kf = match_known(pid, v, known)
        if kf:
            known_hits.append((kf, v))
        else:
            new_viol.append(v)
    lines = []
    seen = set()
    kmap = {kf["id"]: kf for kf in known if kf.get("status") == "known"}
    for R in parts:
        for h in R.get("known_hits", []):
            kf = kmap.get(h["finding"])
            if kf is None:
                # a spec names a finding that the committed file does not list as known: report it
                new_viol.append({"kernel": h["kernel"], "query": "violation inside role of %s, which is not listed as known" % h["finding"], "replay": h["replay"]})
            elif kf["id"] not in seen:
                seen.add(kf["id"])
                lines.append("KNOWN-FINDING: property=%s %s [witness %s]" % (pid, kf["summary"], h["replay"].get("inputs")))
    for kf, v in known_hits:
        if kf["id"] in seen:
            continue
        seen.add(kf["id"])
        lines.append("KNOWN-FINDING: property=%s %s" % (pid, kf["summary"]))
    replay_paths = []
    for i, v in enumerate(new_viol):
        p = write_replay(pid, i, v)
        replay_paths.append(p)
        lines.append("VIOLATION property=%s replay=%s" % (pid, p))
    ev = {
        "property_id": pid,
        "tier": "thorough" if tier == "deep" else tier,
        "seed": seed,
        "level": "proof",
        "coverage": {
            "obligations": obligations,
            "discharged": discharged,
            "checker_cmd": checker_cmd,
            "trusted_base": trusted_base,
            "explanation": level_text,
            "units": units,
            "samples": samples or [{"note": "no claim-level query ran"}],
            "solver_seconds_total": round(solver_secs, 2),
            "translator_validation_vectors": nvec,
            "translator_validation_mismatches": nmis,
            "refused_units": refused,
            "inconclusive": [{k: (str(v)[:300] if k in ("why", "detail", "replay", "first", "errtext") else v) for k, v in x.items()} for x in inconclusive[:40]],
            "known_findings_matched": sorted(seen),
        },
        "assumptions": assumptions,
        "wall_s": round(wall_s, 2),
        "violations": len(new_viol),
    }
    os.makedirs(os.path.join(VERIF, "evidence"), exist_ok=True)
    path = os.path.join(VERIF, "evidence", pid + ".json")
    tmp = path + ".tmp"
    json.dump(ev, open(tmp, "w"), indent=1, default=str)
    os.replace(tmp, path)
    for ln in lines:
        print(ln)
    if new_viol:
        code = 1
    elif inconclusive or refused:
        code = 2
    else:
        code = 0
    print("[%s] tier=%s obligations=%d discharged=%d violations=%d known=%d inconclusive=%d refused=%d wall=%.1fs exit=%d" % (
        pid, tier, obligations, discharged, len(new_viol), len(known_hits), len(inconclusive), len(refused), wall_s, code))
    return code
