"""MIR -> SMT encoder (engine M).

Symbolically executes one loop-free (or boundedly unrolled) MIR body produced
by rustc for a kernel wrapper and builds, over mathematical integers with
explicit mod-2^k wrapping:

  * a definition for every scalar the body computes,
  * a path condition for every basic block,
  * a list of *obligations* (conditions that must be unsatisfiable): every
    `assert` terminator, every reachable panic call, every `unreachable`
    terminator and every `assume`,
  * the merged return value and the condition under which the body returns.

Anything the encoder does not understand raises Refuse: the kernel is then
reported "not encodable" by the caller; nothing is approximated silently.
"""
import re
import z3

from mirparse import Place


class Refuse(Exception):
    pass


INT_TYPES = {
    "i8": (8, True), "i16": (16, True), "i32": (32, True), "i64": (64, True),
    "i128": (128, True), "isize": (64, True),
    "u8": (8, False), "u16": (16, False), "u32": (32, False), "u64": (64, False),
    "u128": (128, False), "usize": (64, False), "char": (32, False),
}


def ty_range(ty):
    bits, signed = INT_TYPES[ty]
    if signed:
        return -(1 << (bits - 1)), (1 << (bits - 1)) - 1
    return 0, (1 << bits) - 1


STD_ENUMS = {
    "Option": {"None": 0, "Some": 1},
    "Result": {"Ok": 0, "Err": 1},
    "ControlFlow": {"Continue": 0, "Break": 1},
    "Ordering": {"Less": -1, "Equal": 0, "Greater": 1},
    "Bound": {"Included": 0, "Excluded": 1, "Unbounded": 2},
    "Cow": {"Borrowed": 0, "Owned": 1},
    "FpCategory": {"Nan": 0, "Infinite": 1, "Zero": 2, "Subnormal": 3, "Normal": 4},
}


# ---------------------------------------------------------------- values

class VInt:
    __slots__ = ("t", "ty", "lo", "hi", "tz")

    def __init__(self, t, ty, lo=None, hi=None, tz=0):
        self.t = t
        self.ty = ty
        self.tz = tz          # number of low bits known to be zero (for tag arithmetic on packed handles)
        tlo, thi = ty_range(ty)
        self.lo = tlo if lo is None else max(lo, tlo)
        self.hi = thi if hi is None else min(hi, thi)

    def __repr__(self):
        return "VInt(%s:%s)" % (self.t, self.ty)


class VBool:
    __slots__ = ("t",)

    def __init__(self, t):
        self.t = t

    def __repr__(self):
        return "VBool(%s)" % self.t


class VAgg:
    """struct / tuple / array / closure; fields: dict idx -> value"""
    __slots__ = ("f", "tag")

    def __init__(self, fields=None, tag=None):
        if isinstance(fields, (list, tuple)):
            fields = dict(enumerate(fields))
        self.f = fields or {}
        self.tag = tag

    def __repr__(self):
        return "VAgg(%s%r)" % (self.tag or "", self.f)


class VEnum:
    """discr: z3 Int (discriminant value); variants: name -> dict idx -> value;
    dmap: variant name -> discriminant value (None if unknown type)"""
    __slots__ = ("discr", "variants", "ty", "dmap")

    def __init__(self, discr, variants, ty, dmap):
        self.discr = discr
        self.variants = variants
        self.ty = ty
        self.dmap = dmap

    def is_(self, name):
        return self.discr == self.dmap[name]

    def payload(self, name, idx=0):
        return self.variants[name][idx]

    def __repr__(self):
        return "VEnum(%s %s %r)" % (self.ty, self.discr, self.variants)


class VRef:
    __slots__ = ("local", "proj")

    def __init__(self, local, proj=()):
        self.local = local
        self.proj = tuple(proj)

    def __repr__(self):
        return "VRef(_%d%r)" % (self.local, self.proj)


class VOpaque:
    __slots__ = ("why",)

    def __init__(self, why):
        self.why = why

    def __repr__(self):
        return "VOpaque(%s)" % self.why


class VStatic:
    """pointer into a constant (read-only) allocation: alloc info dict, byte offset (python int),
    pointee type text, optional slice length, and the namespace to resolve relocations in"""
    __slots__ = ("alloc", "off", "ty", "length", "ns")

    def __init__(self, alloc, off, ty, length=None, ns=None):
        self.alloc = alloc
        self.off = off
        self.ty = ty
        self.length = length
        self.ns = ns

    def __repr__(self):
        return "VStatic(+%s:%s len=%s)" % (self.off, self.ty, self.length)


class VBoxVal:
    """a shared reference passed into an inlined callee: pointer to an immutable snapshot"""
    __slots__ = ("val",)

    def __init__(self, val):
        self.val = val

    def __repr__(self):
        return "VBoxVal(%r)" % (self.val,)


class VUninit:
    def __repr__(self):
        return "VUninit"


UNINIT = VUninit()


def zsum(terms):
    """z3.Sum that never produces a unary (+ x), which cvc5 rejects"""
    terms = list(terms)
    if not terms:
        return z3.IntVal(0)
    if len(terms) == 1:
        return terms[0]
    return z3.Sum(terms)


def contains_ref(v, depth=0):
    if isinstance(v, VRef):
        return True
    if depth > 6:
        return False
    if isinstance(v, VAgg):
        return any(contains_ref(x, depth + 1) for x in v.f.values())
    if isinstance(v, VEnum):
        return any(contains_ref(x, depth + 1) for pl in v.variants.values() for x in pl.values())
    return False


def strip_generics(path):
    """remove all <...> groups (balanced, '->' aware)"""
    out = []
    depth = 0
    i = 0
    n = len(path)
    while i < n:
        c = path[i]
        if c == "<":
            depth += 1
        elif c == ">" and not (i > 0 and path[i - 1] in "-="):
            depth -= 1
        elif depth == 0:
            out.append(c)
        i += 1
    s = "".join(out)
    while "::::" in s:
        s = s.replace("::::", "::")
    return s.strip(":").strip()


def norm_callee(func):
    """Normalise a callee path: drop generic args but keep `<impl T>` / `<A as B>` heads readable."""
    f = func.strip()
    # `<A as B>::method` -> `A as B>::method` style token kept readable for matching
    m = re.match(r"^<(.*?) as (.*?)>::(.*)$", f)
    if m and f.startswith("<") :
        # find the matching '>' of the leading '<'
        depth = 0
        for i, ch in enumerate(f):
            if ch == "<":
                depth += 1
            elif ch == ">" and not (i and f[i - 1] in "-="):
                depth -= 1
                if depth == 0:
                    head = f[1:i]
                    f = "QSELF[" + strip_generics(head) + "]" + f[i + 1:]
                    break
    # turn '<impl i32>' / '<X as Y>' into a plain token
    f = re.sub(r"<impl ([^<>]*(?:<[^<>]*>)?[^<>]*)>", lambda m: "impl_" + re.sub(r"[^A-Za-z0-9_]", "_", m.group(1)), f)
    return f


class Obligation:
    def __init__(self, kind, label, cond, block):
        self.kind = kind      # 'assert' | 'panic' | 'unreachable' | 'assume' | 'allocfail'
        self.label = label
        self.cond = cond      # z3 Bool: satisfiable == violation
        self.block = block


PANIC_FUNCS = (
    "core::panicking::", "std::rt::panic_fmt", "core::result::unwrap_failed",
    "core::option::unwrap_failed", "core::option::expect_failed",
    "core::result::expect_failed", "std::rt::begin_panic", "core::slice::index::slice_",
    "core::str::slice_error_fail", "core::cell::panic_already",
    "std::process::abort", "core::intrinsics::abort",
    "core::num::overflow_panic::", "core::num::int_log10::panic_for_nonpositive_argument",
)
PANIC_BARE = {"panic_fmt", "panic", "panic_nounwind", "panic_nounwind_fmt", "panic_explicit", "unwrap_failed", "expect_failed",
              "panic_bounds_check", "assert_failed", "assert_failed_inner", "panic_display", "panic_str_2015", "unreachable_display",
              "slice_start_index_len_fail", "slice_end_index_len_fail", "slice_index_order_fail", "panic_cannot_unwind",
              "panic_in_cleanup", "panic_misaligned_pointer_dereference", "panic_null_pointer_dereference", "panic_invalid_enum_construction",
              "begin_panic", "handle_alloc_error_"}
ALLOCFAIL_FUNCS = ("alloc::raw_vec::handle_error", "alloc::alloc::handle_alloc_error", "alloc::raw_vec::capacity_overflow")

ERROR_CTOR = re.compile(
    r"^(jiff::)?(error::)?Error::(adhoc|adhoc_from_args|adhoc_from_static_str|range|shared|from_args|context|with_context)$"
    r"|^jiff::shared::util::error::Error::from_args$"
    r"|^(jiff::)?shared::util::error::Error::from_args$"
)


class Encoder:
    def __init__(self, fn, allocs, enums, name_prefix="", debug_assertions=False, unwind=0, bounds=None, resolver=None):
        self.fn = fn
        self.allocs = allocs
        self.enums = enums            # name -> {variant: discr}
        self.pfx = name_prefix
        self.defs = []                # z3 Bool assertions (definitions / side constraints)
        self.obligations = []
        self.counter = 0
        self.inputs = []              # [(name, z3 const, ty)]
        self.notes = []               # things assumed / skipped (strings)
        self.opaque_calls = {}        # callee -> count
        self.nonlinear = 0
        self.debug_assertions = debug_assertions
        self.unwind = unwind
        self.ret_cond = None
        self.ret_val = None
        self.stats = {"blocks": 0, "stmts": 0, "divmods": 0, "bitblasts": 0}
        self._divcache = {}
        self._constcache = {}
        self.const_by_id = {}
        # incremental solver over the definitions, used only to prune calls that sit on infeasible paths
        self._fs = z3.Solver()
        self._fs.set("timeout", 1500)
        self.pruned_calls = 0
        self.bounds = bounds or {}
        self.resolver = resolver      # callable(callee text, nargs) -> Function | None
        self.call_depth = 0
        self.call_stack = []
        self.inlined_calls = {}

    # ------------------------------------------------------------ helpers
    def add_def(self, defined, constraint):
        """record a definitional constraint: it pins down the constants in `defined`
        (fresh, never constrained elsewhere) in terms of older ones"""
        for d in defined:
            self.const_by_id[d.get_id()] = d
        self.defs.append((tuple(d.get_id() for d in defined), constraint))
        if self._fs is not None:
            self._fs.add(constraint)

    def fresh(self, base, sort="Int"):
        self.counter += 1
        nm = "%s%s_%d" % (self.pfx, base, self.counter)
        return z3.Int(nm) if sort == "Int" else z3.Bool(nm)

    def name_int(self, term, base="t"):
        """introduce a named constant for a non-trivial term"""
        if z3.is_int_value(term) or z3.is_const(term):
            return term
        v = self.fresh(base)
        self.add_def([v], v == term)
        return v

    def name_bool(self, term, base="b"):
        if z3.is_true(term) or z3.is_false(term) or z3.is_const(term):
            return term
        v = self.fresh(base, "Bool")
        self.add_def([v], v == term)
        return v

    def const_int(self, n, ty):
        return VInt(z3.IntVal(n), ty, n, n)

    @staticmethod
    def as_const(term):
        if z3.is_int_value(term):
            return term.as_long()
        return None

    def cases(self, v, limit=8):
        """if v is an ITE tree over integer constants, return [(cond, const)], else None"""
        out = []

        def rec(t, cond):
            if len(out) > limit:
                return False
            c = self.as_const(t)
            if c is not None:
                out.append((cond, c))
                return True
            if z3.is_app_of(t, z3.Z3_OP_ITE):
                g, a, b = t.children()
                return rec(a, g if cond is None else z3.And(cond, g)) and rec(b, z3.Not(g) if cond is None else z3.And(cond, z3.Not(g)))
            return False

        t = v.t
        # named constants hide the ITE: look through our own definitions
        t = self.expand_def(t)
        if rec(t, None) and len(out) <= limit:
            return out
        return None

    def expand_def(self, t):
        d = getattr(self, "_defmap", None)
        if d is None:
            d = self._defmap = {}
        return d.get(t.get_id(), t) if z3.is_const(t) else t

    def name_ite(self, term, base="m"):
        """name a term but remember its definition so cases() can look through"""
        if z3.is_int_value(term) or (z3.is_const(term)):
            return term
        v = self.fresh(base)
        self.add_def([v], v == term)
        if not hasattr(self, "_defmap"):
            self._defmap = {}
        self._defmap[v.get_id()] = term
        return v

    # ------------------------------------------------------------ arithmetic
    def wrap(self, term, lo, hi, ty, tz=0):
        r = self._wrap(term, lo, hi, ty)
        r.tz = min(tz, INT_TYPES[ty][0])
        return r

    def _wrap(self, term, lo, hi, ty):
        tlo, thi = ty_range(ty)
        if lo >= tlo and hi <= thi:
            return VInt(term, ty, lo, hi)
        M = thi - tlo + 1
        t = self.name_int(term, "w")
        if lo >= tlo - M and hi <= thi + M:
            if lo >= tlo:
                r = z3.If(t > thi, t - M, t)
            elif hi <= thi:
                r = z3.If(t < tlo, t + M, t)
            else:
                r = z3.If(t > thi, t - M, z3.If(t < tlo, t + M, t))
            return VInt(self.name_int(r, "w"), ty)
        # general: t - tlo = q*M + r', 0 <= r' < M
        q = self.fresh("wq")
        r = self.fresh("wr")
        self.add_def([q, r], z3.And(t - tlo == q * M + r, r >= 0, r < M, q >= (lo - tlo) // M, q <= (hi - tlo) // M))
        self.stats["divmods"] += 1
        return VInt(self.name_int(r + tlo, "w"), ty)

    def floor_divmod_const(self, a_t, alo, ahi, d):
        """floor division by positive constant d: returns (q, r, qlo, qhi)"""
        assert d > 0
        ca = self.as_const(a_t)
        if ca is not None:
            return z3.IntVal(ca // d), z3.IntVal(ca % d), ca // d, ca // d
        if d == 1:
            return a_t, z3.IntVal(0), alo, ahi
        key = (a_t.get_id(), d)
        hit = self._divcache.get(key)
        if hit is not None:
            return hit
        if alo // d == ahi // d:
            # quotient is a constant on this interval: no fresh variables needed
            qc = alo // d
            res = (z3.IntVal(qc), a_t - qc * d, qc, qc)
            self._divcache[key] = res
            return res
        q = self.fresh("q")
        r = self.fresh("r")
        qlo, qhi = alo // d, ahi // d
        self.add_def([q, r], z3.And(a_t == q * d + r, r >= 0, r < d, q >= qlo, q <= qhi))
        self.stats["divmods"] += 1
        self._divcache[key] = (q, r, qlo, qhi)
        return q, r, qlo, qhi

    def trunc_divmod(self, a, b):
        """Rust `/` and `%` (truncating) on VInts; b must be a constant or ITE of constants.
        returns (qterm, qlo, qhi, rterm, rlo, rhi) as unbounded ints (caller wraps)"""
        cb = self.as_const(b.t)
        if cb is None:
            cs = self.cases(b)
            if cs is None:
                return self.trunc_divmod_sym(a, b)
            # distribute
            res = [self.trunc_divmod_c(a, c) if c != 0 else (z3.IntVal(0), 0, 0, z3.IntVal(0), 0, 0) for (_, c) in cs]
            q = res[-1][0]
            r = res[-1][3]
            for (cond, _), rr in zip(reversed(cs[:-1]), reversed(res[:-1])):
                q = z3.If(cond, rr[0], q)
                r = z3.If(cond, rr[3], r)
            return (self.name_int(q, "dq"), min(x[1] for x in res), max(x[2] for x in res),
                    self.name_int(r, "dr"), min(x[4] for x in res), max(x[5] for x in res))
        if cb == 0:
            raise Refuse("division by constant zero")
        return self.trunc_divmod_c(a, cb)

    def trunc_divmod_c(self, a, d):
        ad = abs(d)
        fq, fr, qlo, qhi = self.floor_divmod_const(a.t, a.lo, a.hi, ad)
        if a.lo >= 0:
            q, r = fq, fr
            rlo, rhi = 0, min(ad - 1, a.hi)
        elif a.hi <= 0 and False:
            pass
        else:
            adj = z3.And(a.t < 0, fr != 0)
            q = z3.If(adj, fq + 1, fq)
            r = z3.If(adj, fr - ad, fr)
            qlo, qhi = min(qlo + 1, 0) if qlo < 0 else qlo, qhi
            rlo, rhi = -(ad - 1), ad - 1
            if a.hi <= 0:
                rhi = 0
        if d < 0:
            q = -q
            qlo, qhi = -qhi, -qlo
        return q, qlo, qhi, r, rlo, rhi

    def trunc_divmod_sym(self, a, b):
        # symbolic divisor: nonlinear. a = q*b + r, |r| < |b|, sign(r) = sign(a) or r = 0
        self.nonlinear += 1
        q = self.fresh("nq")
        r = self.fresh("nr")
        self.add_def([q, r], z3.Implies(b.t != 0, z3.And(
            a.t == q * b.t + r,
            z3.If(b.t > 0, z3.And(r < b.t, r > -b.t), z3.And(r < -b.t, r > b.t)),
            z3.If(a.t >= 0, r >= 0, r <= 0))))
        m = max(abs(a.lo), abs(a.hi))
        mb = max(abs(b.lo), abs(b.hi))
        return q, -m, m, r, -min(m, mb), min(m, mb)

    def mul(self, a, b):
        ca, cb = self.as_const(a.t), self.as_const(b.t)
        if ca is not None and cb is not None:
            return z3.IntVal(ca * cb), ca * cb, ca * cb
        if ca is None and cb is None:
            # try ITE-of-constants on one side
            for x, y in ((a, b), (b, a)):
                cs = self.cases(x)
                if cs is not None:
                    t = y.t * cs[-1][1]
                    for cond, c in reversed(cs[:-1]):
                        t = z3.If(cond, y.t * c, t)
                    break
            else:
                self.nonlinear += 1
                t = a.t * b.t
        else:
            t = a.t * b.t
        cands = [a.lo * b.lo, a.lo * b.hi, a.hi * b.lo, a.hi * b.hi]
        return t, min(cands), max(cands)

    def to_unsigned(self, v):
        """value of v reinterpreted as unsigned of the same width (term, lo, hi)"""
        bits, signed = INT_TYPES[v.ty]
        if not signed or v.lo >= 0:
            return v.t, max(v.lo, 0), v.hi
        M = 1 << bits
        if v.hi < 0:
            return v.t + M, v.lo + M, v.hi + M
        return z3.If(v.t < 0, v.t + M, v.t), 0, M - 1

    def from_unsigned(self, t, lo, hi, ty):
        bits, signed = INT_TYPES[ty]
        if not signed:
            return VInt(t, ty, lo, hi)
        half = 1 << (bits - 1)
        if hi < half:
            return VInt(t, ty, lo, hi)
        t = self.name_int(t, "u")
        return VInt(self.name_int(z3.If(t >= half, t - (1 << bits), t), "s"), ty)

    def bits_of(self, v, nbits=None):
        """list of z3 Bool (or python bool) for the low `nbits` bits of v's two's complement value"""
        bits, _ = INT_TYPES[v.ty]
        nb = bits if nbits is None else nbits
        c = self.as_const(v.t)
        if c is not None:
            c &= (1 << bits) - 1
            return [bool((c >> i) & 1) for i in range(nb)]
        ut, ulo, uhi = self.to_unsigned(v)
        # only as many bits as the interval needs
        need = max(uhi.bit_length(), 1)
        need = min(need, bits)
        ps = [self.fresh("p", "Bool") for _ in range(need)]
        self.add_def(ps, ut == zsum([z3.If(p, z3.IntVal(1 << i), z3.IntVal(0)) for i, p in enumerate(ps)]))
        self.stats["bitblasts"] += 1
        out = list(ps) + [False] * (bits - need)
        return out[:nb]

    def from_bits(self, bs, ty):
        terms = []
        const = 0
        for i, b in enumerate(bs):
            if b is True:
                const += 1 << i
            elif b is False:
                pass
            else:
                terms.append(z3.If(b, z3.IntVal(1 << i), z3.IntVal(0)))
        hi = const + sum(1 << i for i, b in enumerate(bs) if b is not True and b is not False)
        t = z3.IntVal(const) if not terms else zsum(terms + [z3.IntVal(const)]) if const else zsum(terms)
        return self.from_unsigned(t, const, hi, ty)

    def bitop(self, op, a, b):
        ty = a.ty
        bits, signed = INT_TYPES[ty]
        ca, cb = self.as_const(a.t), self.as_const(b.t)
        if ca is not None and cb is not None:
            mask = (1 << bits) - 1
            x, y = ca & mask, cb & mask
            r = {"BitAnd": x & y, "BitOr": x | y, "BitXor": x ^ y}[op]
            if signed and r >= (1 << (bits - 1)):
                r -= 1 << bits
            return self.const_int(r, ty)
        if op in ("BitOr", "BitXor"):
            for x, c in ((a, cb), (b, ca)):
                if c is not None and 0 <= c < (1 << x.tz):
                    # the constant only touches bits known to be zero: or/xor == addition
                    _, signed_ = INT_TYPES[ty]
                    return self.wrap(x.t + c, x.lo + c, x.hi + c, ty)
        if op == "BitAnd":
            for x, c in ((a, cb), (b, ca)):
                if c is not None:
                    cu = c & ((1 << bits) - 1)
                    if cu == (1 << bits) - 1:
                        return x
                    if cu == 0:
                        return self.const_int(0, ty)
                    if (cu & (cu + 1)) == 0:  # low mask 2^k-1
                        k = cu.bit_length()
                        if x.lo >= 0 and x.hi <= cu:
                            return x
                        _, r, _, _ = self.floor_divmod_const(x.t, x.lo, x.hi, 1 << k)
                        return VInt(r, ty, 0, cu)
        ba = self.bits_of(a)
        bb = self.bits_of(b)

        def f(p, q):
            if op == "BitAnd":
                if p is False or q is False:
                    return False
                if p is True:
                    return q
                if q is True:
                    return p
                return z3.And(p, q)
            if op == "BitOr":
                if p is True or q is True:
                    return True
                if p is False:
                    return q
                if q is False:
                    return p
                return z3.Or(p, q)
            if p is False:
                return q
            if q is False:
                return p
            if p is True:
                return (not q) if isinstance(q, bool) else z3.Not(q)
            if q is True:
                return (not p) if isinstance(p, bool) else z3.Not(p)
            return z3.Xor(p, q)

        return self.from_bits([f(p, q) for p, q in zip(ba, bb)], ty)

    # ------------------------------------------------------------ constants
    def parse_const(self, txt, hint_ty=None):
        txt = txt.strip()
        m = re.fullmatch(r"(-?\d+)_([iu](?:8|16|32|64|128|size))", txt)
        if m:
            return self.const_int(int(m.group(1)), m.group(2))
        if txt == "true":
            return VBool(z3.BoolVal(True))
        if txt == "false":
            return VBool(z3.BoolVal(False))
        m = re.fullmatch(r"([iu](?:8|16|32|64|128|size))::(MIN|MAX)", txt)
        if m:
            lo, hi = ty_range(m.group(1))
            return self.const_int(lo if m.group(2) == "MIN" else hi, m.group(1))
        if txt.startswith('"') or txt.startswith('b"'):
            return VOpaque("str")
        m = re.fullmatch(r"'(.*)'", txt)
        if m:
            s = m.group(1)
            try:
                ch = bytes(s, "utf-8").decode("unicode_escape") if s.startswith("\\") else s
                if len(ch) == 1:
                    return self.const_int(ord(ch), "char")
            except Exception:
                pass
            return VOpaque("char")
        if txt == "()":
            return VAgg({})
        # struct constant: PATH {{ f: v, ... }}
        m = re.match(r"^(.*?) \{\{ (.*) \}\}$", txt, re.S)
        if m:
            fields = self.split_const_fields(m.group(2))
            vals = {}
            for i, ftxt in enumerate(fields):
                if ":" in ftxt and re.match(r"^[A-Za-z_0-9]+: ", ftxt):
                    ftxt = ftxt.split(": ", 1)[1]
                vals[i] = self.parse_const(ftxt)
            return self.adt_value(m.group(1), vals)
        # tuple-struct / tuple constant: PATH(a, b) or (a, b)
        m = None
        if txt.endswith(")") and not txt.startswith("{"):
            # the parenthesis matching the final one (generic arguments may contain `()` themselves)
            depth = 0
            for k in range(len(txt) - 1, -1, -1):
                if txt[k] == ")":
                    depth += 1
                elif txt[k] == "(":
                    depth -= 1
                    if depth == 0:
                        m = re.match(r"^(.*)$", txt[:k], re.S)
                        inner_txt = txt[k + 1:-1]
                        break
        if m:
            inner = inner_txt
            fields = self.split_const_fields(inner) if inner.strip() else []
            vals = {i: self.parse_const(f) for i, f in enumerate(fields)}
            if m.group(1).strip() == "":
                return VAgg(vals)
            return self.adt_value(m.group(1), vals)
        m = re.match(r"^\{0x([0-9a-f]+) as \*(?:const|mut) .*\}$", txt)
        if m:
            # integer address used as a pointer constant (tagged handles)
            return self.const_int(int(m.group(1), 16), "usize")
        m = re.match(r"^\{(alloc\d+)(?:\+0x([0-9a-f]+))?(?:<imm>)?: (.*)\}$", txt)
        if m:
            info = self.find_alloc(m.group(1))
            ty = m.group(3).strip()
            if info is None or not ty.startswith("&"):
                return VOpaque("alloc-const")
            pointee = re.sub(r"^&('\w+ )?(mut )?", "", ty)
            return VStatic(info, int(m.group(2) or "0", 16), pointee, ns=getattr(self.fn, "alloc_ns", None))
        # ranged-integer associated constants
        mr = re.match(r"^(?:.*::)?(ri(?:8|16|32|64|128))::<(-?\d+), (-?\d+)>::(MIN_SELF|MAX_SELF)$", txt)
        if mr and not self.debug_assertions:
            val = int(mr.group(2)) if mr.group(4) == "MIN_SELF" else int(mr.group(3))
            return VAgg({0: self.const_int(val, "i" + mr.group(1)[2:])}, tag=mr.group(1))
        # named associated constant of an ADT (e.g. `jiff::civil::Time::MAX`): evaluate its initializer body
        mn = re.match(r"^(?:.*::)?([A-Z][A-Za-z0-9]*)::([A-Z][A-Z0-9_]*)$", txt)
        if mn and self.resolver is not None and self.lookup_enum(mn.group(1)) is None:
            callee = self.resolver(txt, 0, named_const=(mn.group(1), mn.group(2)))
            if callee is not None:
                key = ("nc", mn.group(1), mn.group(2))
                if key in self._constcache:
                    return self._constcache[key]
                saved = (self.fn, self.ret_cond, self.ret_val)
                self.call_depth += 1
                try:
                    self.fn = callee
                    rc, rv = self.eval_body(callee, [], z3.BoolVal(True))
                finally:
                    self.fn, self.ret_cond, self.ret_val = saved
                    self.call_depth -= 1
                if rc is not None:
                    self._constcache[key] = rv
                    return rv
        mp = re.match(r"^(.*)::promoted\[(\d+)\]$", txt)
        if mp and self.resolver is not None:
            owner = strip_generics(mp.group(1))
            callee = self.resolver(owner, 0, promoted=(owner.split("::")[-1], int(mp.group(2)), owner))
            if callee is not None:
                saved = (self.fn, self.ret_cond, self.ret_val)
                self.call_depth += 1
                try:
                    self.fn = callee
                    rc, rv = self.eval_body(callee, [], z3.BoolVal(True))
                finally:
                    self.fn, self.ret_cond, self.ret_val = saved
                    self.call_depth -= 1
                if rc is not None:
                    return rv
            return VOpaque("promoted")
        # unit-like ADT or enum variant constant, fn item, etc.
        path = strip_generics(txt)
        if re.fullmatch(r"[A-Z][A-Za-z0-9_]*", path):
            # bare (trimmed-path) enum variant such as `Day`: unique across the scanned enums?
            owners = [en for en, vs in self.enums.items() if path in vs and path in UNIT_VARIANTS.get(en, ())]
            if not owners and path in ("Less", "Equal", "Greater"):
                return VEnum(z3.IntVal(STD_ENUMS["Ordering"][path]), {path: {}}, "Ordering", STD_ENUMS["Ordering"])
            if hint_ty:
                h = strip_generics(hint_ty).split("::")[-1]
                if h in owners:
                    owners = [h]
            if len(owners) == 1:
                en = self.enums[owners[0]]
                return VEnum(z3.IntVal(en[path]), {path: {}}, owners[0], en)
        segs = path.split("::")
        if len(segs) >= 2 and self.lookup_enum(segs[-2]) is not None and segs[-1] in self.lookup_enum(segs[-2]):
            return self.adt_value(txt, {})
        if re.fullmatch(r"[A-Za-z_0-9:<> ,'&\[\];{}@#\.\-/()!*+]+", txt):
            return VOpaque("const:" + txt[:60])
        raise Refuse("constant %r" % txt)

    @staticmethod
    def split_const_fields(s):
        out = []
        depth = 0
        cur = ""
        i = 0
        while i < len(s):
            c = s[i]
            if c in "([{<":
                depth += 1
            elif c in ")]}":
                depth -= 1
            elif c == ">" and not (i > 0 and s[i - 1] in "-="):
                depth -= 1
            if c == "," and depth == 0:
                out.append(cur.strip())
                cur = ""
            else:
                cur += c
            i += 1
        if cur.strip():
            out.append(cur.strip())
        return out

    def lookup_enum(self, name):
        if name in STD_ENUMS:
            return STD_ENUMS[name]
        return self.enums.get(name)

    def adt_value(self, path, vals):
        p = strip_generics(path)
        segs = p.split("::")
        if len(segs) >= 2:
            en = self.lookup_enum(segs[-2])
            if en is not None and segs[-1] in en:
                return VEnum(z3.IntVal(en[segs[-1]]), {segs[-1]: dict(vals)}, segs[-2], en)
        return VAgg(dict(vals), tag=segs[-1])

    # ------------------------------------------------------------ places
    def canon(self, state, place):
        """resolve derefs: returns (root local, path) or None when it points to opaque memory"""
        root = place.local
        path = []
        for n_el, el in enumerate(place.proj):
            if el[0] == "deref":
                v = self.read_path(state, root, path)
                if isinstance(v, VRef):
                    root, path = v.local, list(v.proj)
                elif isinstance(v, VStatic):
                    return ("opaque", v, list(place.proj[n_el + 1:]))
                elif isinstance(v, (VOpaque, VUninit)):
                    return ("opaque", v)
                else:
                    raise Refuse("deref of %r" % (v,))
            else:
                path.append(el)
        return root, path

    def read_path(self, state, root, path):
        v = state.get(root, UNINIT)
        i = 0
        n = len(path)
        while i < n:
            el = path[i]
            k = el[0]
            if isinstance(v, VOpaque):
                return VOpaque(v.why)
            if isinstance(v, VUninit):
                return UNINIT
            if k == "field":
                if isinstance(v, VAgg):
                    v = v.f.get(el[1], UNINIT)
                elif isinstance(v, VEnum):
                    raise Refuse("field of enum without downcast")
                else:
                    raise Refuse("field %d of %r" % (el[1], v))
            elif k == "downcast":
                if not isinstance(v, VEnum):
                    raise Refuse("downcast of %r" % (v,))
                nm = el[1]
                pl = v.variants.get(nm)
                if i + 1 < n and path[i + 1][0] == "field":
                    idx = path[i + 1][1]
                    v = UNINIT if pl is None else pl.get(idx, UNINIT)
                    i += 1
                else:
                    v = VAgg(dict(pl or {}))
            elif k == "index":
                iv = state.get(el[1])
                v = self.index_read(v, iv)
            elif k == "cindex":
                if not isinstance(v, VAgg):
                    raise Refuse("cindex of %r" % (v,))
                if el[3]:
                    raise Refuse("cindex from end")
                v = v.f.get(el[1], UNINIT)
            else:
                raise Refuse("projection %r" % (el,))
            i += 1
        return v

    def index_read(self, arr, iv):
        if not isinstance(iv, VInt):
            raise Refuse("index %r" % (iv,))
        if isinstance(arr, VAgg):
            c = self.as_const(iv.t)
            if c is not None:
                return arr.f.get(c, UNINIT)
            keys = sorted(k for k in arr.f if iv.lo <= k <= iv.hi)
            if not keys:
                return UNINIT
            res = arr.f[keys[-1]]
            for k in reversed(keys[:-1]):
                res = self.merge(iv.t == k, arr.f[k], res)
            return res
        raise Refuse("index into %r" % (arr,))

    def read(self, state, place):
        if any(el[0] == "deref" for el in place.proj):
            # walk manually so that snapshots (VBoxVal) can be dereferenced
            v = state.get(place.local, UNINIT)
            proj = list(place.proj)
            k = 0
            while k < len(proj):
                el = proj[k]
                if el[0] == "deref":
                    if isinstance(v, VBoxVal):
                        v = v.val
                        k += 1
                        continue
                    if isinstance(v, VRef):
                        v = self.read_path(state, v.local, list(v.proj))
                        k += 1
                        continue
                    break
                # consume a maximal run of non-deref projections
                j = k
                while j < len(proj) and proj[j][0] != "deref":
                    j += 1
                v = self.read_path({-1: v, **{kk: vv for kk, vv in state.items() if isinstance(kk, int)}}, -1, proj[k:j])
                k = j
            else:
                return v
        c = self.canon(state, place)
        if c[0] == "opaque":
            if isinstance(c[1], VStatic):
                return self.static_read(state, c[2], c[1])
            return VOpaque("mem")
        return self.read_path(state, c[0], c[1])

    def find_alloc(self, name, ns=None):
        ns = ns if ns is not None else getattr(self.fn, "alloc_ns", None)
        if ns is not None:
            a = ns.find_alloc(name)
            if a is not None:
                return a
        return self.allocs.get(name)

    TY_SIZES = {"Constant": 8, "jiff::util::t::Constant": 8, "util::t::Constant": 8, "t::Constant": 8}

    def ty_size(self, ty):
        ty = ty.strip()
        if ty in INT_TYPES:
            return INT_TYPES[ty][0] // 8
        if ty == "bool":
            return 1
        if ty in self.TY_SIZES:
            return self.TY_SIZES[ty]
        m = re.match(r"^\[(.*); (\d+)\]$", ty)
        if m:
            return self.ty_size(m.group(1)) * int(m.group(2))
        if ty.startswith("&"):
            inner = re.sub(r"^&('\w+ )?(mut )?", "", ty)
            return 16 if (inner.startswith("[") and not re.match(r"^\[.*; \d+\]$", inner)) or inner == "str" else 8
        raise Refuse("size of type %s in static memory" % ty)

    def static_load(self, sp):
        """load a value of type sp.ty from the constant allocation at sp.off"""
        ty = sp.ty.strip()
        data, relocs = sp.alloc["bytes"], sp.alloc["relocs"]
        if ty in INT_TYPES or ty == "bool":
            n = 1 if ty == "bool" else INT_TYPES[ty][0] // 8
            bs = data[sp.off:sp.off + n]
            if len(bs) != n or any(b is None for b in bs):
                raise Refuse("static load of uninitialised/out-of-bounds bytes")
            v = int.from_bytes(bytes(bs), "little", signed=False)
            if ty == "bool":
                return VBool(z3.BoolVal(bool(v)))
            bits, signed = INT_TYPES[ty]
            if signed and v >= 1 << (bits - 1):
                v -= 1 << bits
            return self.const_int(v, ty)
        if ty in self.TY_SIZES:
            return VAgg({0: self.static_load(VStatic(sp.alloc, sp.off, "i64", ns=sp.ns))}, tag="Constant")
        m = re.match(r"^\[(.*); (\d+)\]$", ty)
        if m:
            es = self.ty_size(m.group(1))
            return VAgg({i: self.static_load(VStatic(sp.alloc, sp.off + i * es, m.group(1), ns=sp.ns)) for i in range(int(m.group(2)))})
        if ty.startswith("&"):
            inner = re.sub(r"^&('\w+ )?(mut )?", "", ty)
            if sp.off not in relocs:
                raise Refuse("static pointer without relocation")
            an, aoff = relocs[sp.off]
            info = self.find_alloc(an, sp.ns)
            if info is None:
                raise Refuse("relocation target %s not found" % an)
            length = None
            if inner.startswith("[") and not re.match(r"^\[.*; \d+\]$", inner):
                lb = data[sp.off + 8:sp.off + 16]
                length = int.from_bytes(bytes(lb), "little")
            return VStatic(info, aoff, inner, length=length, ns=sp.ns)
        raise Refuse("static load of type %s" % ty)

    def static_read(self, state, rest, sp):
        """read a place whose deref chain ran into the static pointer sp: `rest` are the projections
        that follow that deref; they are applied to the constant memory"""
        cur = [(None, sp)]   # list of (condition, VStatic place) alternatives
        for el in rest:
            nxt = []
            for cond, p in cur:
                ty = p.ty.strip()
                m = re.match(r"^\[(.*?)(?:; (\d+))?\]$", ty)
                if el[0] == "deref":
                    q = self.static_load(p)
                    if not isinstance(q, VStatic):
                        raise Refuse("deref of non-pointer in static memory")
                    nxt.append((cond, q))
                elif el[0] == "index" and m:
                    es = self.ty_size(m.group(1))
                    n = int(m.group(2)) if m.group(2) else p.length
                    iv = state.get(el[1])
                    if not isinstance(iv, VInt) or n is None:
                        raise Refuse("static index")
                    c = self.as_const(iv.t)
                    ks = [c] if c is not None else [k for k in range(n) if iv.lo <= k <= iv.hi]
                    for k in ks:
                        if not (0 <= k < n):
                            continue
                        cc = None if c is not None else (iv.t == k)
                        if cond is not None:
                            cc = cond if cc is None else z3.And(cond, cc)
                        nxt.append((cc, VStatic(p.alloc, p.off + k * es, m.group(1), ns=p.ns)))
                elif el[0] == "cindex" and m and not el[3]:
                    es = self.ty_size(m.group(1))
                    nxt.append((cond, VStatic(p.alloc, p.off + el[1] * es, m.group(1), ns=p.ns)))
                elif el[0] == "field" and ty in self.TY_SIZES and el[1] == 0:
                    nxt.append((cond, VStatic(p.alloc, p.off, "i64", ns=p.ns)))
                else:
                    raise Refuse("projection %r into static %s" % (el, ty))
            cur = nxt
            if len(cur) > 512:
                raise Refuse("static read fan-out too large")
        if not cur:
            return UNINIT
        vals = [(c, self.static_load(p)) for c, p in cur]
        res = vals[-1][1]
        for c, v in reversed(vals[:-1]):
            res = self.merge(c, v, res)
        return res

    def write(self, state, place, val):
        c = self.canon(state, place)
        if c[0] == "opaque":
            # store through a pointer we do not track (fresh heap box etc.)
            self.notes.append("store through untracked pointer ignored")
            return
        root, path = c
        state[root] = self.update(state.get(root, UNINIT), path, val, state)

    def update(self, cur, path, val, state):
        if not path:
            return val
        el = path[0]
        k = el[0]
        if k == "field":
            if isinstance(cur, VAgg):
                nf = dict(cur.f)
                tag = cur.tag
            elif isinstance(cur, (VUninit, VOpaque)):
                nf = {}
                tag = None
            else:
                raise Refuse("field update of %r" % (cur,))
            nf[el[1]] = self.update(nf.get(el[1], UNINIT), path[1:], val, state)
            return VAgg(nf, tag)
        if k == "downcast":
            nm = el[1]
            if isinstance(cur, VEnum):
                nv = {a: dict(b) for a, b in cur.variants.items()}
                discr, ty, dmap = cur.discr, cur.ty, cur.dmap
            elif isinstance(cur, (VUninit, VOpaque)):
                nv = {}
                discr, ty, dmap = None, None, None
            else:
                raise Refuse("downcast update of %r" % (cur,))
            if len(path) < 2 or path[1][0] != "field":
                raise Refuse("downcast update without field")
            pl = nv.setdefault(nm, {})
            pl[path[1][1]] = self.update(pl.get(path[1][1], UNINIT), path[2:], val, state)
            return VEnum(discr, nv, ty, dmap)
        if k == "index":
            iv = state.get(el[1])
            if not isinstance(cur, VAgg) or not isinstance(iv, VInt):
                raise Refuse("index update")
            c = self.as_const(iv.t)
            nf = dict(cur.f)
            if c is not None:
                nf[c] = self.update(nf.get(c, UNINIT), path[1:], val, state)
            else:
                for kk in list(nf):
                    if iv.lo <= kk <= iv.hi:
                        nf[kk] = self.merge(iv.t == kk, self.update(nf[kk], path[1:], val, state), nf[kk])
            return VAgg(nf, cur.tag)
        if k == "cindex":
            nf = dict(cur.f) if isinstance(cur, VAgg) else {}
            nf[el[1]] = self.update(nf.get(el[1], UNINIT), path[1:], val, state)
            return VAgg(nf, getattr(cur, "tag", None))
        raise Refuse("update projection %r" % (el,))

    # ------------------------------------------------------------ merge
    def merge(self, cond, a, b):
        """value of ite(cond, a, b)"""
        if a is b:
            return a
        if isinstance(a, VUninit):
            return b
        if isinstance(b, VUninit):
            return a
        if isinstance(a, VInt) and isinstance(b, VInt):
            if a.t.eq(b.t):
                return a
            ty = a.ty
            ca, cb = self.as_const(a.t), self.as_const(b.t)
            tza = a.tz if ca is None else (64 if ca == 0 else ((ca & -ca).bit_length() - 1))
            tzb = b.tz if cb is None else (64 if cb == 0 else ((cb & -cb).bit_length() - 1))
            return VInt(self.name_ite(z3.If(cond, a.t, b.t)), ty, min(a.lo, b.lo), max(a.hi, b.hi), tz=min(tza, tzb))
        if isinstance(a, VBool) and isinstance(b, VBool):
            if a.t.eq(b.t):
                return a
            return VBool(self.name_bool(z3.If(cond, a.t, b.t)))
        if isinstance(a, VAgg) and isinstance(b, VAgg):
            keys = set(a.f) | set(b.f)
            return VAgg({k: self.merge(cond, a.f.get(k, UNINIT), b.f.get(k, UNINIT)) for k in keys}, a.tag or b.tag)
        if isinstance(a, VEnum) and isinstance(b, VEnum):
            if a.discr is None or b.discr is None:
                d = a.discr if b.discr is None else b.discr
            elif a.discr.eq(b.discr):
                d = a.discr
            else:
                d = self.name_ite(z3.If(cond, a.discr, b.discr), "d")
            vs = {}
            for nm in set(a.variants) | set(b.variants):
                pa, pb = a.variants.get(nm), b.variants.get(nm)
                if pa is None:
                    vs[nm] = pb
                elif pb is None:
                    vs[nm] = pa
                else:
                    vs[nm] = {k: self.merge(cond, pa.get(k, UNINIT), pb.get(k, UNINIT)) for k in set(pa) | set(pb)}
            return VEnum(d, vs, a.ty or b.ty, a.dmap or b.dmap)
        if isinstance(a, VBoxVal) and isinstance(b, VBoxVal):
            return VBoxVal(self.merge(cond, a.val, b.val))
        if isinstance(a, VOpaque) and isinstance(b, VOpaque):
            return a
        if isinstance(a, VRef) and isinstance(b, VRef):
            if a.local == b.local and a.proj == b.proj:
                return a
            raise Refuse("merge of different references %r %r" % (a, b))
        if isinstance(a, VOpaque) or isinstance(b, VOpaque):
            # one side lost precision: the merged value is opaque
            return VOpaque("merge")
        if isinstance(a, VStatic) and isinstance(b, VStatic) and a.alloc is b.alloc and a.off == b.off and a.ty == b.ty:
            return a
        raise Refuse("merge %r / %r" % (type(a).__name__, type(b).__name__))

    # ------------------------------------------------------------ operands / rvalues
    def operand(self, state, op):
        k = op[0]
        if k in ("copy", "move"):
            return self.read(state, op[1])
        return self.parse_const(op[1])

    def cast(self, v, ty, kind):
        ty = ty.strip()
        if kind == "IntToInt":
            if isinstance(v, VBool):
                if ty not in INT_TYPES:
                    raise Refuse("cast bool to " + ty)
                return VInt(z3.If(v.t, z3.IntVal(1), z3.IntVal(0)), ty, 0, 1)
            if isinstance(v, VEnum):
                if ty not in INT_TYPES:
                    raise Refuse("cast enum to " + ty)
                vals = list(v.dmap.values()) if v.dmap else [-(1 << 63), (1 << 63)]
                return self.wrap(v.discr, min(vals), max(vals), ty)
            if not isinstance(v, VInt):
                raise Refuse("IntToInt of %r" % (v,))
            if ty not in INT_TYPES:
                raise Refuse("IntToInt to " + ty)
            return self.wrap(v.t, v.lo, v.hi, ty, tz=v.tz)
        if kind == "Transmute":
            if isinstance(v, VInt) and ty in INT_TYPES:
                if INT_TYPES[ty][0] != INT_TYPES[v.ty][0]:
                    raise Refuse("transmute width change")
                return self.wrap(v.t, v.lo, v.hi, ty, tz=v.tz)
            if isinstance(v, (VOpaque, VRef, VStatic, VBoxVal)):
                return v
            if isinstance(v, VInt) and (ty.startswith("*") or ty.startswith("&") or "NonNull" in ty):
                # integer used as a pointer (tagged handles such as tz::timezone::Repr): keep the address
                # as a usize so that tag / shift arithmetic on it stays exact; dereferencing it is refused
                return self.wrap(v.t, v.lo, v.hi, "usize", tz=v.tz)
            if isinstance(v, VInt) and re.fullmatch(r"[A-Za-z_][A-Za-z_0-9:]*", ty) and self.lookup_enum(ty.split("::")[-1]) is None:
                # integer -> single-field newtype (e.g. core::num::niche_types::Nanoseconds)
                return VAgg({0: v}, tag=ty.split("::")[-1])
            if isinstance(v, VAgg):
                # newtype transmutes (e.g. NonNull<T> <-> *const T) keep the payload
                if len(v.f) == 1:
                    return self.cast(list(v.f.values())[0], ty, kind)
            raise Refuse("transmute %r to %s" % (v, ty))
        if kind.startswith("PtrToPtr") or kind.startswith("PointerCoercion") or kind in ("FnPtrToPtr", "PointerExposeProvenance", "PointerWithExposedProvenance"):
            if isinstance(v, (VRef, VOpaque, VStatic, VBoxVal)):
                return v
            if isinstance(v, VInt):
                if ty in INT_TYPES:
                    return self.wrap(v.t, v.lo, v.hi, ty)
                return self.wrap(v.t, v.lo, v.hi, "usize")
            if isinstance(v, VAgg):
                return v
            raise Refuse("pointer cast of %r" % (v,))
        raise Refuse("cast kind " + kind)

    def binop(self, op, a, b):
        # pointer / opaque comparisons are not modelled
        if isinstance(a, VBool) and isinstance(b, VBool):
            if op in ("BitAnd",):
                return VBool(z3.And(a.t, b.t))
            if op in ("BitOr",):
                return VBool(z3.Or(a.t, b.t))
            if op in ("BitXor", "Ne"):
                return VBool(z3.Xor(a.t, b.t))
            if op == "Eq":
                return VBool(a.t == b.t)
            if op in ("Lt", "Le", "Gt", "Ge"):
                ai = z3.If(a.t, 1, 0)
                bi = z3.If(b.t, 1, 0)
                return VBool({"Lt": ai < bi, "Le": ai <= bi, "Gt": ai > bi, "Ge": ai >= bi}[op])
            raise Refuse("bool binop " + op)
        if not (isinstance(a, VInt) and isinstance(b, VInt)):
            raise Refuse("binop %s on %r, %r" % (op, a, b))
        ty = a.ty
        if op in ("Eq", "Ne", "Lt", "Le", "Gt", "Ge"):
            # static decisions from intervals
            if op == "Lt" and a.hi < b.lo or op == "Le" and a.hi <= b.lo or op == "Gt" and a.lo > b.hi or op == "Ge" and a.lo >= b.hi or op == "Ne" and (a.hi < b.lo or a.lo > b.hi):
                return VBool(z3.BoolVal(True))
            if op == "Lt" and a.lo >= b.hi or op == "Le" and a.lo > b.hi or op == "Gt" and a.hi <= b.lo or op == "Ge" and a.hi < b.lo or op == "Eq" and (a.hi < b.lo or a.lo > b.hi):
                return VBool(z3.BoolVal(False))
            t = {"Eq": a.t == b.t, "Ne": a.t != b.t, "Lt": a.t < b.t, "Le": a.t <= b.t, "Gt": a.t > b.t, "Ge": a.t >= b.t}[op]
            return VBool(t)
        if op == "Cmp":
            d = z3.If(a.t < b.t, z3.IntVal(-1), z3.If(a.t == b.t, z3.IntVal(0), z3.IntVal(1)))
            return VEnum(self.name_ite(d, "cmp"), {}, "Ordering", STD_ENUMS["Ordering"])
        if op in ("Add", "AddUnchecked"):
            return self.wrap(a.t + b.t, a.lo + b.lo, a.hi + b.hi, ty)
        if op in ("Sub", "SubUnchecked"):
            return self.wrap(a.t - b.t, a.lo - b.hi, a.hi - b.lo, ty)
        if op in ("Mul", "MulUnchecked"):
            t, lo, hi = self.mul(a, b)
            return self.wrap(t, lo, hi, ty)
        if op in ("AddWithOverflow", "SubWithOverflow", "MulWithOverflow"):
            if op[0] == "A":
                t, lo, hi = a.t + b.t, a.lo + b.lo, a.hi + b.hi
            elif op[0] == "S":
                t, lo, hi = a.t - b.t, a.lo - b.hi, a.hi - b.lo
            else:
                t, lo, hi = self.mul(a, b)
            tlo, thi = ty_range(ty)
            if lo >= tlo and hi <= thi:
                return VAgg([VInt(t, ty, lo, hi), VBool(z3.BoolVal(False))])
            t = self.name_int(t, "o")
            conds = []
            if hi > thi:
                conds.append(t > thi)
            if lo < tlo:
                conds.append(t < tlo)
            ov = z3.Or(conds) if len(conds) > 1 else conds[0]
            return VAgg([self.wrap(t, lo, hi, ty), VBool(self.name_bool(ov, "ov"))])
        if op in ("Div", "Rem"):
            q, qlo, qhi, r, rlo, rhi = self.trunc_divmod(a, b)
            if op == "Div":
                return self.wrap(q, qlo, qhi, ty)
            return VInt(self.name_int(r, "r"), ty, rlo, rhi)
        if op in ("Shr", "ShrUnchecked", "Shl", "ShlUnchecked"):
            bits, _ = INT_TYPES[ty]
            cb = self.as_const(b.t)
            if cb is None:
                cs = self.cases(b)
                if cs is None:
                    if b.lo >= 0 and b.hi < bits and b.hi - b.lo <= 64:
                        cs = [(b.t == k, k) for k in range(b.lo, b.hi + 1)]
                    else:
                        raise Refuse("shift by symbolic amount")
                res = [self.binop(op, a, self.const_int(c & (bits - 1), b.ty)) for _, c in cs]
                out = res[-1]
                for (cond, _), rv in zip(reversed(cs[:-1]), reversed(res[:-1])):
                    out = self.merge(cond, rv, out)
                return out
            k = cb & (bits - 1) if cb >= 0 else cb % bits
            if op.startswith("Shr"):
                q, _, qlo, qhi = self.floor_divmod_const(a.t, a.lo, a.hi, 1 << k)
                return VInt(q, ty, qlo, qhi)
            return self.wrap(a.t * (1 << k), a.lo << k, a.hi << k, ty, tz=a.tz + k)
        if op in ("BitAnd", "BitOr", "BitXor"):
            return self.bitop(op, a, b)
        raise Refuse("binop " + op)

    def unop(self, op, a):
        if op == "Not":
            if isinstance(a, VBool):
                return VBool(z3.Not(a.t))
            if isinstance(a, VInt):
                _, signed = INT_TYPES[a.ty]
                if signed:
                    return VInt(-a.t - 1, a.ty, -a.hi - 1, -a.lo - 1)
                _, thi = ty_range(a.ty)
                return VInt(thi - a.t, a.ty, thi - a.hi, thi - a.lo)
        if op == "Neg" and isinstance(a, VInt):
            return self.wrap(-a.t, -a.hi, -a.lo, a.ty)
        if op == "PtrMetadata":
            if isinstance(a, VStatic) and a.length is not None:
                return self.const_int(a.length, "usize")
            return VOpaque("ptrmeta")
        raise Refuse("unop %s on %r" % (op, a))

    def rvalue(self, state, rv, dest_ty=None):
        k = rv[0]
        if k == "use":
            return self.operand(state, rv[1])
        if k == "cast":
            return self.cast(self.operand(state, rv[1]), rv[2], rv[3])
        if k == "binop":
            a = self.operand(state, rv[2])
            b = self.operand(state, rv[3])
            if isinstance(a, (VOpaque, VRef, VStatic)) or isinstance(b, (VOpaque, VRef, VStatic)):
                if rv[1] == "Offset":
                    return VOpaque("ptr-offset")
                return self.opaque_scalar(dest_ty, "binop on opaque")
            if isinstance(a, VEnum) and isinstance(b, VEnum) and rv[1] in ("Eq", "Ne"):
                t = a.discr == b.discr
                return VBool(t if rv[1] == "Eq" else z3.Not(t))
            return self.binop(rv[1], a, b)
        if k == "unop":
            a = self.operand(state, rv[2])
            if isinstance(a, VStatic) and rv[1] == "PtrMetadata":
                return self.unop(rv[1], a)
            if isinstance(a, VOpaque):
                return self.opaque_scalar(dest_ty, "unop on opaque")
            return self.unop(rv[1], a)
        if k in ("ref", "rawptr"):
            if any(el[0] == "deref" for el in rv[2].proj):
                base = state.get(rv[2].local, UNINIT)
                if isinstance(base, VBoxVal) and not (k == "ref" and rv[1]):
                    return VBoxVal(self.read(state, rv[2]))
            c = self.canon(state, rv[2])
            if c[0] == "opaque":
                if isinstance(c[1], VStatic):
                    if not c[2]:
                        return c[1]
                    # reference to an element of constant memory: snapshot of its value
                    return VBoxVal(self.static_read(state, c[2], c[1]))
                return VOpaque("ref-to-mem")
            return VRef(c[0], c[1])
        if k == "copyderef":
            return self.read(state, rv[1])
        if k == "discr":
            v = self.read(state, rv[1])
            if isinstance(v, VEnum):
                if v.discr is None:
                    raise Refuse("discriminant of partially initialised enum")
                vals = list(v.dmap.values()) if v.dmap else None
                ty = dest_ty if dest_ty in INT_TYPES else "isize"
                if vals:
                    return VInt(v.discr, ty, min(vals), max(vals))
                return VInt(v.discr, ty)
            if isinstance(v, (VOpaque, VUninit)):
                # (uninitialised: rustc drops stores to zero-sized enums such as Option<Infallible>)
                return self.opaque_scalar(dest_ty, "discriminant of opaque")
            raise Refuse("discriminant of %r" % (v,))
        if k == "agg":
            kind, info, ops = rv[1], rv[2], rv[3]
            vals = {i: self.operand(state, o) for i, o in enumerate(ops)}
            if kind in ("tuple", "array", "closure"):
                return VAgg(vals)
            return self.adt_value(info, vals)
        if k == "repeat":
            v = self.operand(state, rv[1])
            m = re.match(r"(\d+)", rv[2].replace("const ", ""))
            if not m:
                raise Refuse("repeat count " + rv[2])
            n = int(m.group(1))
            if n > 4096:
                raise Refuse("repeat too long")
            return VAgg({i: v for i in range(n)})
        if k == "nullop":
            if rv[1] == "UbChecks":
                self.notes.append("UbChecks() taken as false (library UB precondition checks are not compiled in user builds)")
                return VBool(z3.BoolVal(False))
            if rv[1] == "OverflowChecks":
                return VBool(z3.BoolVal(True))
            raise Refuse("nullary op " + rv[2])
        if k == "len":
            v = self.read(state, rv[1])
            if isinstance(v, VStatic) and v.length is not None:
                return self.const_int(v.length, "usize")
            if isinstance(v, VAgg):
                return self.const_int(len(v.f), "usize")
            raise Refuse("Len of %r" % (v,))
        if k == "shallowbox":
            return VOpaque("box")
        if k == "unparsed":
            self.notes.append("rvalue not understood, treated as opaque: " + rv[1][:80])
            return VOpaque("unparsed")
        raise Refuse("rvalue " + k)

    def opaque_scalar(self, ty, why):
        """a scalar computed from things we do not model (pointer compare etc.) -- only
        acceptable if never used for control flow or results; we return Opaque and refuse on use."""
        return VOpaque(why)

    # ------------------------------------------------------------ calls
    def call(self, state, func, args, dest_ty, pc):
        """returns ('value', v) | ('panic', kind, label) ; may raise Refuse"""
        f = norm_callee(func)
        sg = strip_generics(f)
        for p in PANIC_FUNCS:
            if sg.startswith(p):
                return ("panic", "panic", sg)
        lastseg = sg.split("::")[-1]
        if lastseg in PANIC_BARE or sg.startswith(("panic_const::", "panicking::", "result::unwrap_failed", "option::unwrap_failed", "option::expect_failed", "result::expect_failed")):
            return ("panic", "panic", sg)
        for p in ALLOCFAIL_FUNCS:
            if sg.startswith(p):
                return ("panic", "allocfail", sg)
        if ERROR_CTOR.match(sg) or sg.endswith("::error::Error::from_args") or re.search(r"Error::(adhoc|adhoc_from_args|adhoc_from_static_str|range|shared)$", sg):
            self.opaque_calls[sg] = self.opaque_calls.get(sg, 0) + 1
            return ("value", VOpaque("error"))
        if re.search(r"^QSELF\[.* as .*ErrorContext\]::(context|with_context)$", sg):
            self.opaque_calls[sg] = self.opaque_calls.get(sg, 0) + 1
            if re.match(r"^<(?:\w+::)*Result<", func.strip()):
                # Result<T, Error>::context / with_context: Ok passes through, only the error is rewrapped
                v = self.operand(state, args[0])
                if isinstance(v, VEnum):
                    vs = {k: dict(p) for k, p in v.variants.items()}
                    vs["Err"] = {0: VOpaque("error")}
                    return ("value", VEnum(v.discr, vs, v.ty, v.dmap))
                raise Refuse("Result::with_context on %r" % (v,))
            return ("value", VOpaque("error"))
        if sg in ("core::intrinsics::cold_path", "std::intrinsics::cold_path", "core::hint::cold_path"):
            return ("value", VAgg({}))
        if sg.startswith("core::fmt::rt::Argument") or sg.startswith("core::fmt::Arguments") or sg.startswith("Arguments::") or sg.startswith("core::fmt::rt::"):
            return ("value", VOpaque("fmt"))
        m = re.match(r"^core::num::impl_([iu](?:8|16|32|64|128|size))::(\w+)$", sg)
        if m:
            r = self.int_method(state, m.group(1), m.group(2), args)
            if r is not None:
                return ("value", r)
        m = re.match(r"^(?:(?:core|std)::)?(?:intrinsics::)?(\w+)$", sg)
        if m and (("intrinsics::" in sg) or m.group(1) in ("ctlz", "ctlz_nonzero", "cttz", "cttz_nonzero", "ctpop", "cold_path", "likely", "unlikely",
                                                            "saturating_add", "saturating_sub", "wrapping_add", "wrapping_sub", "wrapping_mul",
                                                            "unchecked_div", "unchecked_rem", "exact_div", "black_box")):
            r = self.intrinsic(state, m.group(1), args, dest_ty)
            if r is not None:
                return ("value", r)
        if re.match(r"^<.* as (?:\w+::)*AsRef<(?:str|\[u8\])>>::as_ref$", func.strip()) and len(args) == 1:
            # string views (abbreviations, names) are opaque to the encoder
            return ("value", VOpaque("as_ref<str>"))
        r = self.closure_call(state, func, args, pc)
        if r is not None:
            return r
        r = self.enum_cmp_model(state, func, args)
        if r is not None:
            return r
        r = self.rangeint_model(state, func, args, pc)
        if r is not None:
            return r
        r = self.conversion_call(state, func, args, pc)
        if r is not None:
            return r
        r = self.inline_call(state, func, sg, args, pc)
        if r is not None:
            return r
        raise Refuse("call to %s" % sg)

    CLOSURE_CALL = re.compile(r"^<\{closure@(.*)\} as (?:\w+::)*(Fn|FnMut|FnOnce)<.*>>::(call|call_mut|call_once)$")

    def closure_call(self, state, func, args, pc):
        """`<{closure@...} as Fn*<(Args,)>>::call*(env, (args,))`: inline the closure body found in the MIR dumps
        (rust-call ABI: the argument tuple is spread over the closure's parameters)"""
        m = self.CLOSURE_CALL.match(func.strip())
        if not m or self.resolver is None or len(args) != 2:
            return None
        callee = self.resolver(func, 0, closure=m.group(1))
        if callee is None:
            return None
        if re.search(r"(^|::)Error$", strip_generics(callee.ret or "")):
            # error-building closures (map_err / ok_or_else bodies): opaque error token, like the constructors
            self.opaque_calls["closure -> Error"] = self.opaque_calls.get("closure -> Error", 0) + 1
            return ("value", VOpaque("error"))
        env = self.operand(state, args[0])
        tup = self.operand(state, args[1])
        if not isinstance(tup, VAgg):
            return None
        argv = [env] + [tup.f[k] for k in sorted(tup.f)]
        if len(argv) != len(callee.args):
            return None
        return self.inline_fn(state, callee, "closure " + m.group(1)[:60], argv, pc)

    def enum_cmp_model(self, state, func, args):
        """derived PartialEq/PartialOrd/Ord on field-less enums = comparison of discriminants"""
        m = re.match(r"^<(.+) as (?:core::cmp::|std::cmp::)?(PartialOrd|Ord|PartialEq)>::(partial_cmp|cmp|eq|ne|lt|le|gt|ge)$", func.strip())
        if not m or len(args) != 2:
            return None
        vs = []
        for x in args:
            v = self.operand(state, x)
            if isinstance(v, VBoxVal):
                v = v.val
            if isinstance(v, VRef):
                v = self.read_path(state, v.local, list(v.proj))
            vs.append(v)
        if not all(isinstance(v, VEnum) and v.dmap is not None and all(not pl for pl in v.variants.values()) for v in vs):
            return None
        a, b = vs[0].discr, vs[1].discr
        op = m.group(3)
        self.notes.append("hand-modelled derived comparison on field-less enum %s" % vs[0].ty)
        if op in ("partial_cmp", "cmp"):
            d = self.name_ite(z3.If(a < b, z3.IntVal(-1), z3.If(a == b, z3.IntVal(0), z3.IntVal(1))), "cmp")
            o = VEnum(d, {}, "Ordering", STD_ENUMS["Ordering"])
            if op == "cmp":
                return ("value", o)
            return ("value", VEnum(z3.IntVal(1), {"Some": {0: o}}, "Option", STD_ENUMS["Option"]))
        t = {"eq": a == b, "ne": a != b, "lt": a < b, "le": a <= b, "gt": a > b, "ge": a >= b}[op]
        return ("value", VBool(t))

    RI_CALL = re.compile(r"^(?:jiff::)?(?:util::)?(?:rangeint::)?(ri(?:8|16|32|64|128))::<(-?\d+|i\d+::MIN), (-?\d+|i\d+::MAX)>::(\w+)(?:::<(.*)>)?$")

    RI_CONV = re.compile(r"^<((?:\w+::)*Constant|(?:\w+::)*ri(?:8|16|32|64|128)<(?:-?\d+|i\d+::MIN), (?:-?\d+|i\d+::MAX)>) as (?:\w+::)*(RInto|RFrom)<((?:\w+::)*Constant|(?:\w+::)*ri(?:8|16|32|64|128)<(?:-?\d+|i\d+::MIN), (?:-?\d+|i\d+::MAX)>)>>::(rinto|rfrom)$")

    RI_IMPL_CONV = re.compile(r"^<impl (?:\w+::)*(TryRInto|RInto)<.*> as (?:\w+::)*(?:TryRInto|RInto)<(?:\w+::)*(ri(?:8|16|32|64|128))<(-?\d+|i\d+::MIN), (-?\d+|i\d+::MAX)>>>::(try_rinto|rinto)$")

    RI_TRY_CONV = re.compile(r"^<(?:\w+::)*ri(?:8|16|32|64|128)<(?:-?\d+|i\d+::MIN), (?:-?\d+|i\d+::MAX)> as (?:\w+::)*TryRInto<(?:\w+::)*(ri(?:8|16|32|64|128))<(-?\d+|i\d+::MIN), (-?\d+|i\d+::MAX)>>>::try_rinto$")

    def rangeint_impl_conv(self, state, func, args):
        """conversions whose source is an `impl RInto<..>` / `impl TryRInto<..>` parameter of a generic body:
        the source is whatever ranged integer (or Constant) value arrives; the target is spelled out"""
        m = self.RI_IMPL_CONV.match(func.strip())
        src_arg = 0
        if not m:
            # `<riA<..> as TryRInto<riB<lo, hi>>>::try_rinto(v, what)`: Ok(v) iff lo <= v <= hi (all three macro
            # arms of `TryRFrom` in util/rangeint.rs reduce to `Self::contains(val)` in release builds)
            m2 = self.RI_TRY_CONV.match(func.strip())
            if m2:
                m = re.match(r"^(x)(.*)\|(.*)\|(.*)\|(.*)$", "x%s|%s|%s|try_rinto" % (m2.group(1), m2.group(2), m2.group(3)))
        if not m or self.debug_assertions:
            return None
        tgt = m.group(2)
        rty = "i" + tgt[2:]
        lo = ty_range(rty)[0] if "MIN" in m.group(3) else int(m.group(3))
        hi = ty_range(rty)[1] if "MAX" in m.group(4) else int(m.group(4))
        v = self.operand(state, args[src_arg])
        if isinstance(v, VAgg) and len(v.f) == 1 and isinstance(v.f.get(0), VInt):
            v = v.f[0]
        if not isinstance(v, VInt):
            return None
        self.notes.append("hand-modelled ranged-integer conversion: %s" % m.group(5))
        payload = VAgg({0: self.wrap(v.t, v.lo, v.hi, rty)}, tag=tgt)
        if m.group(5) == "rinto":
            return ("value", payload)
        ok = self.name_bool(z3.And(v.t >= lo, v.t <= hi), "riok")
        return ("value", VEnum(z3.If(ok, z3.IntVal(0), z3.IntVal(1)), {"Ok": {0: payload}, "Err": {0: VOpaque("error")}}, "Result", STD_ENUMS["Result"]))

    def rangeint_conv(self, state, func, args):
        r = self.rangeint_impl_conv(state, func, args)
        if r is not None:
            return r
        m = self.RI_CONV.match(func.strip())
        if not m or self.debug_assertions or len(args) != 1:
            return None
        tgt = m.group(3) if m.group(2) == "RInto" else m.group(1)
        mt = re.match(r"^(?:\w+::)*(ri(?:8|16|32|64|128))<", tgt)
        if not mt:
            return None
        tgt = mt.group(1)
        v = self.operand(state, args[0])
        if not (isinstance(v, VAgg) and 0 in v.f and isinstance(v.f[0], VInt)):
            return None
        self.notes.append("hand-modelled ranged-integer conversion: %s" % m.group(4))
        return ("value", VAgg({0: self.cast(v.f[0], "i" + tgt[2:], "IntToInt")}, tag=tgt))

    RI_OP = re.compile(r"^<(?:\w+::)*(ri(?:8|16|32|64|128))<(-?\d+|i\d+::MIN), (-?\d+|i\d+::MAX)> as (?:\w+::)*(Add|Sub|Mul|Div|Rem|Neg|AddAssign|SubAssign|MulAssign|DivAssign|RemAssign)(?:<.*>)?>::(\w+)$")

    def rangeint_op(self, state, func, args):
        """operator traits on ranged integers (release semantics: wrapping add/sub/mul, euclidean div/rem)"""
        m = self.RI_OP.match(func.strip())
        if not m or self.debug_assertions:
            return None
        rty, trait = "i" + m.group(1)[2:], m.group(4)
        ops = [self.operand(state, x) for x in args]
        target = None
        if trait.endswith("Assign"):
            if not isinstance(ops[0], VRef):
                return None
            target = ops[0]
            ops[0] = self.read_path(state, target.local, list(target.proj))

        def val_of(v):
            if isinstance(v, VAgg) and len(v.f) == 1 and isinstance(v.f.get(0), VInt):
                return VInt(v.f[0].t, rty, v.f[0].lo, v.f[0].hi) if v.f[0].ty != rty else v.f[0]
            return None

        vs = [val_of(v) for v in ops]
        if any(v is None for v in vs):
            return None
        self.notes.append("hand-modelled ranged-integer operator: %s::%s" % (m.group(1), trait))
        base = trait.replace("Assign", "")
        if base == "Neg":
            r = self.unop("Neg", vs[0])
        elif base in ("Add", "Sub", "Mul"):
            r = self.binop(base, vs[0], vs[1])
        else:
            cb = self.as_const(vs[1].t)
            if cb is None or cb <= 0:
                raise Refuse("ranged %s by non-constant or non-positive divisor" % base)
            q, rr, qlo, qhi = self.floor_divmod_const(vs[0].t, vs[0].lo, vs[0].hi, cb)
            r = VInt(q, rty, qlo, qhi) if base == "Div" else VInt(rr, rty, 0, cb - 1)
        res = VAgg({0: r}, tag=m.group(1))
        if target is not None:
            self.write(state, Place(target.local, target.proj), res)
            return ("value", VAgg({}))
        return ("value", res)

    RI_CMP = re.compile(r"^<(?:(?:\w+::)*ri(?:8|16|32|64|128)<[^>]*>|(?:\w+::)*Constant) as (?:\w+::)*(PartialEq|PartialOrd|Ord)(?:<.*>)?>::(eq|ne|lt|le|gt|ge|cmp|partial_cmp)$")

    def rangeint_cmp(self, state, func, args):
        m = self.RI_CMP.match(func.strip())
        if not m or self.debug_assertions or len(args) != 2:
            return None
        vs = []
        for x in args:
            v = self.operand(state, x)
            if isinstance(v, VBoxVal):
                v = v.val
            if isinstance(v, VRef):
                v = self.read_path(state, v.local, list(v.proj))
            if isinstance(v, VAgg) and len(v.f) == 1 and isinstance(v.f.get(0), VInt):
                vs.append(v.f[0])
            else:
                return None
        self.notes.append("hand-modelled ranged-integer comparison")
        a, b = vs[0].t, vs[1].t
        op = m.group(2)
        if op in ("cmp", "partial_cmp"):
            d = self.name_ite(z3.If(a < b, z3.IntVal(-1), z3.If(a == b, z3.IntVal(0), z3.IntVal(1))), "cmp")
            o = VEnum(d, {}, "Ordering", STD_ENUMS["Ordering"])
            if op == "cmp":
                return ("value", o)
            return ("value", VEnum(z3.IntVal(1), {"Some": {0: o}}, "Option", STD_ENUMS["Option"]))
        t = {"eq": a == b, "ne": a != b, "lt": a < b, "le": a <= b, "gt": a > b, "ge": a >= b}[op]
        return ("value", VBool(t))

    def rangeint_model(self, state, func, args, pc=None):
        r = self.rangeint_conv(state, func, args)
        if r is not None:
            return r
        r = self.rangeint_op(state, func, args)
        if r is not None:
            return r
        r = self.rangeint_cmp(state, func, args)
        if r is not None:
            return r
        """hand-written semantics (release build, no debug assertions) of the few generic ranged-integer
        operations the MIR inliner sometimes leaves as calls. Listed in the evidence notes."""
        m = self.RI_CALL.match(func.strip())
        if not m or self.debug_assertions:
            return None
        rty, meth = "i" + m.group(1)[2:], m.group(4)
        lo = ty_range(rty)[0] if "MIN" in m.group(2) else int(m.group(2))
        hi = ty_range(rty)[1] if "MAX" in m.group(3) else int(m.group(3))

        def val_of(v):
            if isinstance(v, VAgg) and 0 in v.f and isinstance(v.f[0], VInt) and len(v.f) == 1:
                return v.f[0]
            if isinstance(v, VInt):
                return v
            return None

        def mk(t, l, h):
            # NB: intervals must hold for *all* inputs (definitions are global, not path-conditional),
            # so the payload is the wrapped machine value, not "the value assuming the check passed"
            return VAgg({0: self.wrap(t, l, h, rty)}, tag=m.group(1))

        if meth in ("try_new", "try_new128", "new", "new_const") and len(args) in (1, 2):
            v = self.operand(state, args[-1])
            if isinstance(v, VAgg) and len(v.f) == 1 and isinstance(v.f.get(0), VInt):
                v = v.f[0]
            if not isinstance(v, VInt):
                return None
            self.notes.append("hand-modelled ranged-integer call: %s::%s" % (m.group(1), meth))
            ok = self.name_bool(z3.And(v.t >= lo, v.t <= hi), "riok")
            payload = VAgg({0: self.wrap(v.t, v.lo, v.hi, rty)}, tag=m.group(1))
            if meth.startswith("try_"):
                return ("value", VEnum(z3.If(ok, z3.IntVal(0), z3.IntVal(1)), {"Ok": {0: payload}, "Err": {0: VOpaque("error")}}, "Result", STD_ENUMS["Result"]))
            return ("value", VEnum(z3.If(ok, z3.IntVal(1), z3.IntVal(0)), {"Some": {0: payload}, "None": {}}, "Option", STD_ENUMS["Option"]))
        if meth == "N" and m.group(5) is not None and re.fullmatch(r"-?\d+", m.group(5).strip()):
            k = int(m.group(5))
            return ("value", VAgg({0: self.const_int(k, rty)}, tag=m.group(1)))
        if meth in ("div_ceil", "rem_ceil", "div_floor", "rem_floor", "min", "max") and len(args) == 2:
            ops = [self.operand(state, x) for x in args]
            a, b = val_of(ops[0]), val_of(ops[1])
            if a is None or b is None:
                return None
            b = VInt(b.t, rty, b.lo, b.hi)
            a = VInt(a.t, rty, a.lo, a.hi)
            self.notes.append("hand-modelled ranged-integer call: %s::%s" % (m.group(1), meth))
            if meth in ("min", "max"):
                t = z3.If(a.t < b.t, a.t, b.t) if meth == "min" else z3.If(a.t > b.t, a.t, b.t)
                l = min(a.lo, b.lo) if meth == "min" else max(a.lo, b.lo)
                h = min(a.hi, b.hi) if meth == "min" else max(a.hi, b.hi)
                return ("value", VAgg({0: VInt(self.name_int(t, "mm"), rty, l, h)}, tag=m.group(1)))
            if meth in ("div_ceil", "rem_ceil"):
                if pc is not None and b.lo <= 0 <= b.hi:
                    # i64::wrapping_div / wrapping_rem panic on a zero divisor
                    self.obligations.append(Obligation("panic", "%s::%s: attempt to divide by zero" % (m.group(1), meth), self.mkand(pc, b.t == 0), "rangeint"))
                r = self.binop("Div" if meth == "div_ceil" else "Rem", a, b)
                return ("value", VAgg({0: r}, tag=m.group(1)))
            cb = self.as_const(b.t)
            if cb is None or cb <= 0:
                raise Refuse("ranged %s by non-constant or non-positive divisor" % meth)
            q, r, qlo, qhi = self.floor_divmod_const(a.t, a.lo, a.hi, cb)
            if meth == "div_floor":
                return ("value", VAgg({0: VInt(q, rty, qlo, qhi)}, tag=m.group(1)))
            return ("value", VAgg({0: VInt(r, rty, 0, cb - 1)}, tag=m.group(1)))
        if meth in ("abs", "signum") and len(args) == 1:
            a = val_of(self.operand(state, args[0]))
            if a is None:
                return None
            self.notes.append("hand-modelled ranged-integer call: %s::%s" % (m.group(1), meth))
            if meth == "abs":
                return ("value", VAgg({0: self.wrap(z3.If(a.t < 0, -a.t, a.t), 0, max(abs(a.lo), abs(a.hi)), rty)}, tag=m.group(1)))
            return ("value", VAgg({0: VInt(self.name_int(z3.If(a.t > 0, z3.IntVal(1), z3.If(a.t < 0, z3.IntVal(-1), z3.IntVal(0))), "sg"), rty, -1, 1)}, tag=m.group(1)))
        if meth in ("try_checked_add", "try_checked_sub", "try_checked_mul", "checked_add", "checked_sub", "checked_mul"):
            ops = [self.operand(state, x) for x in args]
            a = val_of(ops[0])
            b = val_of(ops[-1])
            if a is None or b is None:
                return None
            op = meth.split("_")[-1]
            if op == "add":
                t, l, h = a.t + b.t, a.lo + b.lo, a.hi + b.hi
            elif op == "sub":
                t, l, h = a.t - b.t, a.lo - b.hi, a.hi - b.lo
            else:
                t, l, h = self.mul(a, b)
            t = self.name_int(t, "ri")
            ok = self.name_bool(z3.And(t >= lo, t <= hi), "riok")
            self.notes.append("hand-modelled ranged-integer call: %s::%s" % (m.group(1), meth))
            if meth.startswith("try_"):
                en = STD_ENUMS["Result"]
                return ("value", VEnum(z3.If(ok, z3.IntVal(0), z3.IntVal(1)), {"Ok": {0: mk(t, l, h)}, "Err": {0: VOpaque("error")}}, "Result", en))
            en = STD_ENUMS["Option"]
            return ("value", VEnum(z3.If(ok, z3.IntVal(1), z3.IntVal(0)), {"Some": {0: mk(t, l, h)}, "None": {}}, "Option", en))
        return None

    CONV_INTO = re.compile(r"^<(.+) as (?:core::convert::|std::convert::)?Into<(.+)>>::into$")
    CONV_FROM = re.compile(r"^<(.+) as (?:core::convert::|std::convert::)?From<(.+)>>::from$")

    def conversion_call(self, state, func, args, pc):
        """`<A as Into<T>>::into(v)` inside a generic body: dispatch on the runtime value's type tag
        to the concrete `impl From<S> for T` found in the jiff MIR dump"""
        f = func.strip()
        m = self.CONV_INTO.match(f)
        target = None
        if m:
            target = m.group(2)
        else:
            m2 = self.CONV_FROM.match(f)
            if m2:
                target = m2.group(1)
        if target is None or self.resolver is None or len(args) != 1:
            return None
        v = self.operand(state, args[0])
        if isinstance(v, VAgg) and len(v.f) == 1 and isinstance(v.f.get(0), VInt) and target.strip() in INT_TYPES and (v.tag or "").startswith(("ri", "Constant")):
            v = v.f[0]       # `impl From<riN<..>> for iM`: the ranged integer's value
        if isinstance(v, VInt) and target.strip() in INT_TYPES:
            # Into/From between primitive integers exists only where it is value-preserving
            return ("value", self.wrap(v.t, v.lo, v.hi, target.strip(), tz=v.tz))
        tag = v.tag if isinstance(v, VAgg) else (v.ty if isinstance(v, VEnum) else None)
        tgt = strip_generics(target).split("::")[-1]
        if tag == tgt:
            return ("value", v)     # reflexive impl<T> From<T> for T
        if tag is None:
            return None
        callee = self.resolver("from", 1, conv=(tag, tgt))
        if callee is None:
            return None
        return self.inline_fn(state, callee, "From<%s> for %s" % (tag, tgt), [v], pc)

    def inline_call(self, state, func, sg, args, pc):
        if self.resolver is None:
            return None
        callee = self.resolver(func, len(args))
        if callee is None:
            return None
        if self.call_depth >= 12 or callee.name in self.call_stack:
            raise Refuse("call depth/recursion at %s" % sg)
        argv = [self.operand(state, x) for x in args]
        return self.inline_fn(state, callee, sg, argv, pc)

    def snapshot_refs(self, state, v, depth=0):
        """references into the caller's frame (also inside closure environments / tuples) become
        immutable snapshots before the value crosses into an inlined callee"""
        if isinstance(v, VRef):
            return VBoxVal(self.snapshot_refs(state, self.read_path(state, v.local, list(v.proj)), depth + 1))
        if depth > 8:
            return v
        if isinstance(v, VAgg) and any(contains_ref(x) for x in v.f.values()):
            return VAgg({k: self.snapshot_refs(state, x, depth + 1) for k, x in v.f.items()}, v.tag)
        if isinstance(v, VEnum) and contains_ref(v):
            return VEnum(v.discr, {n: {k: self.snapshot_refs(state, x, depth + 1) for k, x in pl.items()} for n, pl in v.variants.items()}, v.ty, v.dmap)
        return v

    def inline_fn(self, state, callee, sg, argv, pc):
        if self.call_depth >= 12 or callee.name in self.call_stack:
            raise Refuse("call depth/recursion at %s" % sg)
        if len(callee.blocks) >= 20 and not z3.is_true(pc):
            # do not expand a large callee on a path that is already infeasible (e.g. the Arc kinds of the
            # TimeZone tag dispatch, or the rounding path of `until` when no rounding was requested)
            self._fs.push()
            self._fs.add(pc)
            r = self._fs.check()
            self._fs.pop()
            if r == z3.unsat:
                self.pruned_calls += 1
                self.notes.append("call on a path proved infeasible was not expanded: " + sg[:80])
                return ("diverge",)
        argv = [self.snapshot_refs(state, v) for v in argv]
        self.inlined_calls[sg] = self.inlined_calls.get(sg, 0) + 1
        saved = (self.fn, self.ret_cond, self.ret_val)
        self.call_depth += 1
        self.call_stack.append(callee.name)
        try:
            self.fn = callee
            ret_cond, ret_val = self.eval_body(callee, argv, pc)
        finally:
            self.fn, self.ret_cond, self.ret_val = saved
            self.call_depth -= 1
            self.call_stack.pop()
        if ret_cond is None:
            return ("diverge",)
        if contains_ref(ret_val):
            raise Refuse("callee %s returns a reference" % sg)
        return ("value", ret_val, ret_cond)

    def int_method(self, state, ty, meth, args):
        a = [self.operand(state, x) for x in args]
        if meth in ("saturating_add", "saturating_sub") and len(a) == 2 and all(isinstance(x, VInt) for x in a):
            tlo, thi = ty_range(ty)
            t = a[0].t + a[1].t if meth.endswith("add") else a[0].t - a[1].t
            t = self.name_int(t, "sat")
            return VInt(self.name_int(z3.If(t > thi, thi, z3.If(t < tlo, tlo, t)), "sat"), ty)
        if meth in ("wrapping_add", "wrapping_sub", "wrapping_mul") and len(a) == 2:
            return self.binop({"wrapping_add": "Add", "wrapping_sub": "Sub", "wrapping_mul": "Mul"}[meth], a[0], a[1])
        if meth == "abs" and len(a) == 1:
            return self.wrap(z3.If(a[0].t < 0, -a[0].t, a[0].t), 0, max(abs(a[0].lo), abs(a[0].hi)), ty)
        return None

    def intrinsic(self, state, name, args, dest_ty):
        a = [self.operand(state, x) for x in args]
        if name in ("saturating_add", "saturating_sub") and all(isinstance(x, VInt) for x in a):
            return self.int_method(state, a[0].ty, name, args)
        if name in ("wrapping_add", "wrapping_sub", "wrapping_mul"):
            return self.binop({"wrapping_add": "Add", "wrapping_sub": "Sub", "wrapping_mul": "Mul"}[name], a[0], a[1])
        if name in ("unchecked_div", "exact_div"):
            return self.binop("Div", a[0], a[1])
        if name == "unchecked_rem":
            return self.binop("Rem", a[0], a[1])
        if name in ("likely", "unlikely", "black_box"):
            return a[0]
        if name in ("cold_path", "assert_inhabited", "assert_zero_valid", "assert_mem_uninitialized_valid"):
            return VAgg({})
        if name in ("ctlz", "ctlz_nonzero", "cttz", "cttz_nonzero", "ctpop") and len(a) == 1 and isinstance(a[0], VInt):
            bits, _ = INT_TYPES[a[0].ty]
            bs = self.bits_of(a[0])
            if name == "ctpop":
                t = zsum([z3.If(b, 1, 0) if not isinstance(b, bool) else z3.IntVal(int(b)) for b in bs])
                return VInt(self.name_int(t, "pop"), "u32", 0, bits)
            order = list(reversed(range(bits))) if name.startswith("ctlz") else list(range(bits))
            t = z3.IntVal(bits)
            for n, i in reversed(list(enumerate(order))):
                b = bs[i]
                if b is True:
                    t = z3.IntVal(n)
                elif b is False:
                    pass
                else:
                    t = z3.If(b, z3.IntVal(n), t)
            return VInt(self.name_int(t, "clz"), "u32", 0, bits)
        if name == "abort":
            return None
        return None

    # ------------------------------------------------------------ driver
    def declare_inputs(self, concrete=None):
        state = {}
        for (loc, ty) in self.fn.args:
            nm = "%sin%d" % (self.pfx, loc)
            if ty == "bool":
                c = z3.Bool(nm)
                state[loc] = VBool(c)
            elif ty in INT_TYPES:
                c = z3.Int(nm)
                lo, hi = ty_range(ty)
                idx = len(self.inputs)
                if idx in self.bounds:
                    blo, bhi = self.bounds[idx]
                    lo, hi = max(lo, blo), min(hi, bhi)
                self.add_def([c], z3.And(c >= lo, c <= hi))
                state[loc] = VInt(c, ty, lo, hi)
            else:
                raise Refuse("kernel argument type %s" % ty)
            self.inputs.append((nm, c, ty))
        return state

    def successors(self, term):
        k = term[0]
        if k == "goto":
            return [term[1]]
        if k == "switch":
            return list(dict.fromkeys(term[2].values()))
        if k == "assert":
            return [term[4]["success"]]
        if k == "drop":
            return [term[2]["return"]] if "return" in term[2] else []
        if k == "call":
            return [term[4]["return"]] if "return" in term[4] else []
        return []

    def topo(self):
        fn = self.fn
        order = []
        seen = {}
        backedges = set()
        self._backedges = backedges

        def visit(b0):
            stack = [(b0, iter(self.successors(fn.blocks[b0].term)))]
            seen[b0] = 1
            while stack:
                b, it = stack[-1]
                adv = False
                for s in it:
                    if s not in fn.blocks:
                        raise Refuse("edge to missing block " + s)
                    st = seen.get(s, 0)
                    if st == 1:
                        # a loop: the back-edge is not followed; taking it must be infeasible (obligation
                        # added when the edge is reached with a satisfiable condition)
                        backedges.add((b, s))
                        continue
                    if st == 0:
                        seen[s] = 1
                        stack.append((s, iter(self.successors(fn.blocks[s].term))))
                        adv = True
                        break
                if not adv:
                    seen[b] = 2
                    order.append(b)
                    stack.pop()

        visit("bb0")
        order.reverse()
        return order

    def run(self):
        init = self.declare_inputs()
        argv = [init[loc] for (loc, _) in self.fn.args]
        rc, rv = self.eval_body(self.fn, argv, z3.BoolVal(True))
        if rc is None:
            raise Refuse("no return reachable")
        self.ret_cond, self.ret_val = rc, rv
        return self

    def eval_body(self, fn, argv, pc0):
        """symbolically execute `fn` on argument values under path condition pc0;
        returns (return condition, merged return value) or (None, None) if it never returns"""
        order = self.topo()
        backedges = self._backedges
        if len(argv) != len(fn.args):
            raise Refuse("arity mismatch calling %s" % fn.name)
        init = {loc: v for (loc, _), v in zip(fn.args, argv)}
        incoming = {b: [] for b in order}   # block -> [(cond, state)]
        incoming["bb0"].append((pc0, init))
        rets = []
        pfx = "" if self.call_depth == 0 else "%s: " % fn.name.split("::")[-1]
        for b in order:
            inc = [(c, s) for (c, s) in incoming[b] if not z3.is_false(c)]
            incoming[b] = None
            if not inc:
                continue
            self.stats["blocks"] += 1
            if len(inc) == 1:
                pc, state = inc[0]
                state = dict(state)
            else:
                pc = self.name_bool(z3.Or([c for c, _ in inc]), "pc")
                state = self.merge_states(inc)
            pc = self.name_bool(z3.simplify(pc), "pc") if not z3.is_const(pc) else pc
            blk = fn.blocks[b]
            pc0_block = pc
            try:
                for st in blk.stmts:
                    self.stats["stmts"] += 1
                    cur_st = st
                    pc = self.statement(state, st, pc, pfx + b)
                cur_st = blk.term
                self._edge_ctx = (b, backedges)
                self.terminator(state, blk.term, pc, pfx + b, incoming, rets)
            except Refuse as e:
                msg = "%s in %s at %s: %r" % (e, self.fn.name, b, cur_st)
                if b == "bb0" and self.call_depth == 0:
                    raise Refuse(msg)
                # "poison": the construct is not modelled. Instead of refusing the whole kernel, require the
                # block to be unreachable (its entry condition must be unsat) and abandon this path.
                self.obligations.append(Obligation("unsupported", "unsupported construct must be unreachable: " + msg[:300], pc0_block, b))
                self.notes.append("unmodelled construct on a path required to be infeasible: " + str(e)[:120])
        if not rets:
            return None, None
        rc = z3.Or([c for c, _ in rets]) if len(rets) > 1 else rets[0][0]
        v = rets[-1][1]
        for c, rv in reversed(rets[:-1]):
            v = self.merge(c, rv, v)
        return self.name_bool(rc, "rc"), v

    def merge_states(self, inc):
        keys = set()
        for _, s in inc:
            keys |= set(s)
        out = {}
        base_c, base_s = inc[-1]
        for k in keys:
            v = base_s.get(k, UNINIT)
            same = True
            for c, s in inc[:-1]:
                if s.get(k, UNINIT) is not v:
                    same = False
                    break
            if same:
                out[k] = v
                continue
            try:
                for c, s in reversed(inc[:-1]):
                    v = self.merge(c, s.get(k, UNINIT), v)
            except Refuse as e:
                # a local that cannot be merged is dead or opaque from here on
                v = VOpaque("unmergeable: %s" % e)
            out[k] = v
        return out

    def local_ty(self, place):
        if not place.proj:
            return self.fn.locals.get(place.local)
        last = place.proj[-1]
        if last[0] == "field":
            return last[2]
        return None

    def statement(self, state, st, pc, bname):
        k = st[0]
        if k == "assign":
            dest_ty = self.local_ty(st[1])
            v = self.rvalue(state, st[2], dest_ty)
            if isinstance(v, VInt) and dest_ty in INT_TYPES and v.ty != dest_ty:
                # e.g. discriminant typed isize assigned to a differently typed local
                v = VInt(v.t, dest_ty, v.lo, v.hi)
            self.write(state, st[1], v)
            return pc
        if k == "assume":
            v = self.operand(state, st[1])
            if isinstance(v, VOpaque):
                self.notes.append("assume on opaque value skipped")
                return pc
            if not isinstance(v, VBool):
                raise Refuse("assume of %r" % (v,))
            if z3.is_true(v.t):
                return pc
            self.obligations.append(Obligation("assume", "%s: assume" % bname, z3.And(pc, z3.Not(v.t)), bname))
            return self.name_bool(z3.And(pc, v.t), "pc")
        if k == "deinit":
            return pc
        if k == "setdiscr":
            cur = self.read(state, st[1])
            if not isinstance(cur, VEnum) or cur.dmap is None:
                raise Refuse("SetDiscriminant on %r" % (cur,))
            idx = int(st[2])
            # variant index -> discriminant value: for our enums index order == sorted by declaration
            names = list(cur.dmap)
            val = cur.dmap[names[idx]]
            self.write(state, st[1], VEnum(z3.IntVal(val), cur.variants, cur.ty, cur.dmap))
            return pc
        if k == "unsupported":
            raise Refuse("statement " + st[1][:60])
        raise Refuse("statement kind " + k)

    def terminator(self, state, term, pc, bname, incoming, rets):
        k = term[0]

        raw_b, backedges = getattr(self, "_edge_ctx", (None, set()))

        def go(target, cond):
            if z3.is_false(cond):
                return
            if (raw_b, target) in backedges:
                self.obligations.append(Obligation("unsupported", "unsupported construct must be unreachable: loop back-edge %s -> %s in %s" % (raw_b, target, self.fn.name), cond, bname))
                self.notes.append("loop back-edge on a path required to be infeasible")
                return
            if incoming.get(target, 0) is None:
                raise Refuse("internal: edge to processed block")
            incoming[target].append((cond, state))

        if k == "goto":
            go(term[1], pc)
        elif k == "return":
            rv = state.get(0, UNINIT)
            if isinstance(rv, VRef) and self.call_depth > 0:
                rv = VBoxVal(self.read_path(state, rv.local, list(rv.proj)))
            rets.append((pc, rv))
        elif k == "unreachable":
            self.obligations.append(Obligation("unreachable", "%s: unreachable" % bname, pc, bname))
        elif k == "resume":
            pass
        elif k == "switch":
            v = self.operand(state, term[1])
            tg = term[2]
            if isinstance(v, VBool):
                t = z3.simplify(v.t)
                for key, bb in tg.items():
                    if key == "otherwise":
                        c = t
                        # otherwise = not any listed value
                        listed = [kk for kk in tg if kk != "otherwise"]
                        if listed == ["0"]:
                            c = t
                        elif listed == ["1"]:
                            c = z3.Not(t)
                        else:
                            c = z3.BoolVal(False)
                    else:
                        c = z3.Not(t) if int(key) == 0 else t
                    go(bb, self.mkand(pc, c))
            elif isinstance(v, VInt) or isinstance(v, VEnum):
                t = v.t if isinstance(v, VInt) else v.discr
                lo = v.lo if isinstance(v, VInt) else None
                hi = v.hi if isinstance(v, VInt) else None
                t = z3.simplify(t) if not z3.is_const(t) else t
                listed = []
                for key, bb in tg.items():
                    if key == "otherwise":
                        continue
                    kv = int(key)
                    if isinstance(v, VInt):
                        # switchInt keys are printed as raw (unsigned) bit patterns: map them
                        # back into the operand's signed range
                        bits, signed = INT_TYPES[v.ty]
                        if signed and kv >= (1 << (bits - 1)):
                            kv -= 1 << bits
                        if lo is not None and (kv < lo or kv > hi):
                            listed.append(kv)
                            continue
                    elif kv >= (1 << 63):
                        kv -= 1 << 64
                    listed.append(kv)
                    c = z3.simplify(t == kv)
                    go(bb, self.mkand(pc, c))
                if "otherwise" in tg:
                    if lo is not None and hi - lo < 64 and all((x in listed) for x in range(lo, hi + 1)):
                        pass  # exhaustive
                    else:
                        c = z3.simplify(z3.And([t != kv for kv in listed])) if listed else z3.BoolVal(True)
                        go(tg["otherwise"], self.mkand(pc, c))
            else:
                raise Refuse("switchInt on %r" % (v,))
        elif k == "assert":
            neg, op, msg, tg = term[1], term[2], term[3], term[4]
            v = self.operand(state, op)
            if not isinstance(v, VBool):
                raise Refuse("assert on %r" % (v,))
            ok = z3.Not(v.t) if neg else v.t
            ok = z3.simplify(ok)
            if not z3.is_true(ok):
                self.obligations.append(Obligation("assert", "%s: %s" % (bname, msg.strip()[:120]), self.mkand(pc, z3.Not(ok)), bname))
            go(tg["success"], self.mkand(pc, ok))
        elif k == "drop":
            # dropping values we model has no observable effect on them
            if "return" in term[2]:
                go(term[2]["return"], pc)
        elif k == "call":
            dest, func, args, tg = term[1], term[2], term[3], term[4]
            dest_ty = self.local_ty(dest) if dest is not None else None
            r = self.call(state, func, args, dest_ty, pc)
            if r[0] == "panic":
                self.obligations.append(Obligation(r[1], "%s: %s" % (bname, r[2]), pc, bname))
                return
            if r[0] == "diverge":
                return
            if dest is not None:
                self.write(state, dest, r[1])
            if "return" in tg:
                go(tg["return"], r[2] if len(r) > 2 else pc)
        else:
            raise Refuse("terminator " + k)

    @staticmethod
    def mkand(a, b):
        if z3.is_true(a):
            return b
        if z3.is_true(b):
            return a
        if z3.is_false(a) or z3.is_false(b):
            return z3.BoolVal(False)
        return z3.And(a, b)


# ---------------------------------------------------------------- enum table from source

UNIT_VARIANTS = {}
ENUM_RE = re.compile(r"\benum\s+([A-Za-z_][A-Za-z_0-9]*)\s*(?:<[^{]*>)?\s*\{")


def scan_enums(paths):
    """Collect `enum Name { A, B = 3, C(..), D{..} }` declarations from Rust sources.
    Returns name -> {variant: discriminant}; names declared twice with different
    variants are dropped (ambiguous) and reported."""
    import os
    found = {}
    ambiguous = set()
    for root in paths:
        for dp, dn, fnames in os.walk(root):
            for fnm in fnames:
                if not fnm.endswith(".rs"):
                    continue
                src = open(os.path.join(dp, fnm), encoding="utf-8", errors="replace").read()
                src = re.sub(r"//[^\n]*", "", src)
                src = re.sub(r"/\*.*?\*/", "", src, flags=re.S)
                for m in ENUM_RE.finditer(src):
                    name = m.group(1)
                    i = m.end()
                    depth = 1
                    j = i
                    while j < len(src) and depth:
                        if src[j] == "{":
                            depth += 1
                        elif src[j] == "}":
                            depth -= 1
                        j += 1
                    body = src[i:j - 1]
                    variants = {}
                    nxt = 0
                    d = 0
                    cur = ""
                    parts = []
                    for ch in body:
                        if ch in "([{<":
                            d += 1
                        elif ch in ")]}>":
                            d -= 1
                        if ch == "," and d == 0:
                            parts.append(cur)
                            cur = ""
                        else:
                            cur += ch
                    if cur.strip():
                        parts.append(cur)
                    ok = True
                    for p in parts:
                        p = re.sub(r"#\s*\[[^\]]*\]", "", p).strip()
                        if not p:
                            continue
                        mm = re.match(r"([A-Za-z_][A-Za-z_0-9]*)\s*(?:(\(|\{).*)?(?:=\s*(-?\d+))?\s*$", p, re.S)
                        if not mm:
                            ok = False
                            break
                        mv = re.search(r"=\s*(-?\d+)\s*$", p)
                        if mv and not mm.group(2):
                            nxt = int(mv.group(1))
                        variants[mm.group(1)] = nxt
                        if not mm.group(2):
                            UNIT_VARIANTS.setdefault(name, set()).add(mm.group(1))
                        nxt += 1
                    if not ok or not variants:
                        continue
                    if name in found and found[name] != variants:
                        ambiguous.add(name)
                    found[name] = variants
    for a in ambiguous:
        found.pop(a, None)
    return found, ambiguous
