"""Engine M driver: scratch build -> MIR -> encode -> validate -> solve -> replay -> results."""
import json
import os
import random
import re
import shutil
import subprocess
import sys
import time
import traceback
from concurrent.futures import ThreadPoolExecutor
from multiprocessing import get_context

import z3

HERE = os.path.dirname(os.path.abspath(__file__))
VERIF = os.path.dirname(HERE)
sys.path.insert(0, HERE)

import mirparse
import mirenc
import solve
import speclib
from mirenc import VInt, VBool, VAgg, VEnum, VOpaque, VUninit, Refuse, INT_TYPES, ty_range, STD_ENUMS

REPO = os.environ.get("VERIF_REPO", "/repo")
NIGHTLY = "nightly"
MIR_RUSTFLAGS = ("--cfg jiff_verif -Zalways-encode-mir -Zcross-crate-inline-threshold=always -Zmir-opt-level=2 "
                 "-Zinline-mir=yes -Zinline-mir-threshold=1500 -Zinline-mir-hint-threshold=3000 "
                 "-Zinline-mir-forwarder-threshold=1500")
ENV_OFFLINE = {"CARGO_NET_OFFLINE": "true"}


def log(*a):
    print(*a, file=sys.stderr, flush=True)


# ------------------------------------------------------------------ scratch build

class Scratch:
    def __init__(self, modules, variants=("rel",), keep=False):
        self.modules = modules
        self.variants = variants
        base = os.environ.get("VERIF_TMP", os.environ.get("TMPDIR", "/tmp"))
        self.dir = os.path.join(base, "verif-m-%d-%d" % (os.getpid(), int(time.time() * 1000) % 100000))
        self.keep = keep
        self.mir = {}
        self.runner = {}
        self.times = {}

    def __enter__(self):
        os.makedirs(self.dir)
        return self

    def __exit__(self, *a):
        if not self.keep:
            shutil.rmtree(self.dir, ignore_errors=True)

    def sh(self, cmd, cwd, env=None, check=True):
        e = dict(os.environ)
        e.update(ENV_OFFLINE)
        if env:
            e.update(env)
        p = subprocess.run(cmd, cwd=cwd, env=e, stdout=subprocess.PIPE, stderr=subprocess.PIPE, text=True)
        if check and p.returncode != 0:
            raise RuntimeError("command failed: %s\n%s\n%s" % (cmd, p.stdout[-3000:], p.stderr[-6000:]))
        return p

    def prepare(self):
        t0 = time.time()
        jiff = os.path.join(self.dir, "jiff")
        self.sh(["rsync", "-a", "--exclude", "/target", "--exclude", ".git", REPO + "/", jiff + "/"], cwd=self.dir)
        shutil.copy(os.path.join(VERIF, "engine_m", "verif_m.rs"), os.path.join(jiff, "src", "__verif_m.rs"))
        with open(os.path.join(jiff, "src", "lib.rs"), "a") as f:
            f.write("\n#[doc(hidden)]\npub mod __verif_m;\n")
        vk = os.path.join(self.dir, "vkern")
        os.makedirs(os.path.join(vk, "src", "bin"))
        with open(os.path.join(vk, "Cargo.toml"), "w") as f:
            f.write(VKERN_TOML)
        lock = os.path.join(REPO, "Cargo.lock")
        kdir = os.path.join(VERIF, "engine_m", "kernels")
        shutil.copy(os.path.join(kdir, "common.rs"), os.path.join(vk, "src", "common.rs"))
        libsrc = "#![allow(unused_imports, dead_code, clippy::all)]\npub mod common;\n"
        for m in self.modules:
            shutil.copy(os.path.join(kdir, m + ".rs"), os.path.join(vk, "src", m + ".rs"))
            libsrc += "pub mod %s;\n" % m
        with open(os.path.join(vk, "src", "lib.rs"), "w") as f:
            f.write(libsrc)
        with open(os.path.join(vk, "src", "bin", "runner.rs"), "w") as f:
            f.write("fn main() {}\n")
        self.vk = vk
        self.times["copy"] = time.time() - t0

    def build_mir(self, variant):
        t0 = time.time()
        prof = {"rel": "dev", "dbg": "dbg"}[variant]
        tdir = os.path.join(self.dir, "target-mir-" + variant)
        p = self.sh(["cargo", "+" + NIGHTLY, "rustc", "--offline", "--lib", "--profile", prof, "--target-dir", tdir,
                     "--", "-Zunpretty=mir"], cwd=self.vk, env={"RUSTFLAGS": MIR_RUSTFLAGS})
        self.mir[variant] = p.stdout
        self.times["mir_" + variant] = time.time() - t0
        shutil.rmtree(tdir, ignore_errors=True)
        return p.stdout

    def build_jiff_mir(self, variant):
        """MIR of the jiff crate itself (same flags): bodies of callees the inliner left as calls"""
        t0 = time.time()
        prof = {"rel": "dev", "dbg": "dev"}[variant]
        tdir = os.path.join(self.dir, "target-jmir-" + variant)
        flags = MIR_RUSTFLAGS + (" -C debug-assertions=off -C overflow-checks=on" if variant == "rel" else " -C debug-assertions=on -C overflow-checks=on")
        p = self.sh(["cargo", "+" + NIGHTLY, "rustc", "--offline", "--lib", "--no-default-features", "--features", "alloc",
                     "--profile", prof, "--target-dir", tdir, "--", "-Zunpretty=mir"],
                    cwd=os.path.join(self.dir, "jiff"), env={"RUSTFLAGS": flags})
        self.times["jiff_mir_" + variant] = time.time() - t0
        shutil.rmtree(tdir, ignore_errors=True)
        return p.stdout

    def write_runner(self, funcs):
        src = gen_runner(funcs)
        with open(os.path.join(self.vk, "src", "bin", "runner.rs"), "w") as f:
            f.write(src)

    def build_runner(self, profile):
        """profile: 'va' (overflow checks on, debug assertions off), 'dev', 'release'"""
        t0 = time.time()
        tdir = os.path.join(self.dir, "target-native")
        args = ["cargo", "build", "--offline", "--bin", "runner", "--target-dir", tdir]
        if profile == "release":
            args.append("--release")
        elif profile != "dev":
            args += ["--profile", profile]
        self.sh(args, cwd=self.vk)
        sub = {"dev": "debug"}.get(profile, profile)
        self.runner[profile] = os.path.join(tdir, sub, "runner")
        self.times["native_" + profile] = time.time() - t0
        return self.runner[profile]

    def run_native(self, profile, jobs):
        """jobs: [(kernel name, [int args])] -> list of parsed outputs ('PANIC' or text)"""
        inp = "\n".join("%s %s" % (k, " ".join(str(int(x)) for x in a)) for k, a in jobs) + "\n"
        p = subprocess.run([self.runner[profile]], input=inp, stdout=subprocess.PIPE, stderr=subprocess.PIPE, text=True)
        lines = p.stdout.split("\n")
        out = []
        for i in range(len(jobs)):
            out.append(lines[i] if i < len(lines) else "MISSING")
        return out


VKERN_TOML = """[package]
name = "vkern"
version = "0.0.0"
edition = "2021"
[lib]
path = "src/lib.rs"
[[bin]]
name = "runner"
path = "src/bin/runner.rs"
[dependencies]
jiff = { path = "../jiff", default-features = false, features = ["alloc"] }
[profile.dev]
debug-assertions = false
overflow-checks = true
debug = false
[profile.dbg]
inherits = "dev"
debug-assertions = true
overflow-checks = true
[profile.va]
inherits = "release"
debug-assertions = false
overflow-checks = true
debug = false
[profile.vd]
inherits = "dev"
opt-level = 1
debug-assertions = true
overflow-checks = true
[profile.release]
debug = false
[workspace]
"""


def gen_runner(funcs):
    arms = []
    for name, fn in sorted(funcs.items()):
        args = []
        for i, (_, ty) in enumerate(fn.args):
            if ty == "bool":
                args.append("a[%d] != 0" % i)
            else:
                args.append("a[%d] as %s" % (i, ty))
        arms.append('        "%s" => format!("{:?}", vkern::%s(%s)),' % (name, name, ", ".join(args)))
    return """use std::io::{self, BufRead, Write};
fn call(name: &str, a: &[i128]) -> String {
    match name {
%s
        _ => String::from("NOKERNEL"),
    }
}
fn main() {
    std::panic::set_hook(Box::new(|_| {}));
    let stdin = io::stdin();
    let out = io::stdout();
    let mut out = out.lock();
    for line in stdin.lock().lines() {
        let line = line.unwrap();
        let mut it = line.split_whitespace();
        let name = match it.next() { Some(n) => n.to_string(), None => continue };
        let a: Vec<i128> = it.map(|x| x.parse::<i128>().unwrap()).collect();
        let r = std::panic::catch_unwind(|| call(&name, &a));
        match r {
            Ok(s) => writeln!(out, "OK {}", s).unwrap(),
            Err(_) => writeln!(out, "PANIC").unwrap(),
        }
    }
}
""" % "\n".join(arms)


# ------------------------------------------------------------------ types / native output parsing

def split_top(s, sep=","):
    out, d, cur = [], 0, ""
    i = 0
    while i < len(s):
        c = s[i]
        if c in "([<":
            d += 1
        elif c in ")]":
            d -= 1
        elif c == ">" and not (i and s[i - 1] in "-="):
            d -= 1
        if c == sep and d == 0:
            out.append(cur.strip())
            cur = ""
        else:
            cur += c
        i += 1
    if cur.strip():
        out.append(cur.strip())
    return out


def parse_ty(s):
    s = s.strip()
    if s in INT_TYPES:
        return ("int", s)
    if s == "bool":
        return ("bool",)
    if s == "()":
        return ("tuple", [])
    if s.startswith("(") and s.endswith(")"):
        return ("tuple", [parse_ty(x) for x in split_top(s[1:-1])])
    m = re.match(r"^(?:[A-Za-z_0-9]+::)*Option<(.*)>$", s)
    if m:
        return ("option", parse_ty(m.group(1)))
    m = re.match(r"^(?:[A-Za-z_0-9]+::)*Result<(.*)>$", s)
    if m:
        a, b = split_top(m.group(1))
        return ("result", parse_ty(a), parse_ty(b))
    m = re.match(r"^\[(.*); (\d+)\]$", s)
    if m:
        return ("tuple", [parse_ty(m.group(1))] * int(m.group(2)))
    raise ValueError("kernel type %r" % s)


class DebugParser:
    def __init__(self, s):
        self.s = s
        self.i = 0

    def ws(self):
        while self.i < len(self.s) and self.s[self.i] == " ":
            self.i += 1

    def eat(self, t):
        self.ws()
        if self.s.startswith(t, self.i):
            self.i += len(t)
            return True
        return False

    def expect(self, t):
        if not self.eat(t):
            raise ValueError("expected %r at %r" % (t, self.s[self.i:self.i + 30]))

    def parse(self, ty):
        k = ty[0]
        self.ws()
        if k == "int":
            m = re.match(r"-?\d+", self.s[self.i:])
            self.i += m.end()
            return int(m.group(0))
        if k == "bool":
            if self.eat("true"):
                return True
            self.expect("false")
            return False
        if k == "tuple":
            if not ty[1]:
                self.expect("()")
                return ()
            opened = "(" if self.s[self.i] == "(" else "["
            self.expect(opened)
            vals = []
            for j, t in enumerate(ty[1]):
                if j:
                    self.expect(",")
                vals.append(self.parse(t))
            self.eat(",")
            self.expect(")" if opened == "(" else "]")
            return tuple(vals)
        if k == "option":
            if self.eat("None"):
                return ("None",)
            self.expect("Some(")
            v = self.parse(ty[1])
            self.expect(")")
            return ("Some", v)
        if k == "result":
            if self.eat("Ok("):
                v = self.parse(ty[1])
                self.expect(")")
                return ("Ok", v)
            self.expect("Err(")
            v = self.parse(ty[2])
            self.expect(")")
            return ("Err", v)
        raise ValueError(ty)


def concrete_value(ty, pv):
    """python value parsed from native output -> encoder Value with constant terms"""
    k = ty[0]
    if k == "int":
        return VInt(z3.IntVal(pv), ty[1], pv, pv)
    if k == "bool":
        return VBool(z3.BoolVal(pv))
    if k == "tuple":
        return VAgg([concrete_value(t, v) for t, v in zip(ty[1], pv)])
    if k == "option":
        dm = STD_ENUMS["Option"]
        if pv[0] == "None":
            return VEnum(z3.IntVal(0), {"None": {}}, "Option", dm)
        return VEnum(z3.IntVal(1), {"Some": {0: concrete_value(ty[1], pv[1])}}, "Option", dm)
    if k == "result":
        dm = STD_ENUMS["Result"]
        if pv[0] == "Ok":
            return VEnum(z3.IntVal(0), {"Ok": {0: concrete_value(ty[1], pv[1])}}, "Result", dm)
        return VEnum(z3.IntVal(1), {"Err": {0: concrete_value(ty[2], pv[1])}}, "Result", dm)
    raise ValueError(ty)


def eval_value(model, v, ty):
    """evaluate a symbolic Value under a z3 model into the python shape DebugParser produces"""
    k = ty[0]
    if k == "int":
        if not isinstance(v, VInt):
            raise ValueError("expected int value, got %r" % (v,))
        return model.eval(v.t, model_completion=True).as_long()
    if k == "bool":
        return z3.is_true(model.eval(v.t, model_completion=True))
    if k == "tuple":
        if not ty[1]:
            return ()
        return tuple(eval_value(model, v.f[i], t) for i, t in enumerate(ty[1]))
    if k in ("option", "result"):
        d = model.eval(v.discr, model_completion=True).as_long()
        names = {val: nm for nm, val in v.dmap.items()}
        nm = names[d]
        if nm == "None":
            return ("None",)
        sub = ty[1] if nm in ("Some", "Ok") else ty[2]
        pl = v.variants.get(nm, {})
        if sub == ("tuple", []):
            return (nm, ())
        return (nm, eval_value(model, pl[0], sub))
    raise ValueError(ty)


# ------------------------------------------------------------------ test vectors

def gen_vectors(fn, extra, seed, n=200):
    rnd = random.Random(seed * 7919 + hash(fn.name) % 1000)
    consts = set()
    for b in fn.blocks.values():
        for st in b.stmts:
            for m in re.finditer(r"const (-?\d+)_[iu]", repr(st)):
                consts.add(int(m.group(1)))
    pools = []
    for _, ty in fn.args:
        if ty == "bool":
            pools.append([0, 1])
            continue
        lo, hi = ty_range(ty)
        p = {lo, lo + 1, hi, hi - 1, 0, 1, -1, 2, -2}
        for c in consts:
            for d in (-1, 0, 1):
                p.add(c + d)
                p.add(-c + d)
        p = sorted(x for x in p if lo <= x <= hi)
        pools.append((p, lo, hi))
    vecs = [list(v) for v in extra]
    seen = set(tuple(v) for v in vecs)
    tries = 0
    while len(vecs) < n and tries < n * 20:
        tries += 1
        v = []
        for pool in pools:
            if isinstance(pool, list):
                v.append(rnd.choice(pool))
                continue
            p, lo, hi = pool
            r = rnd.random()
            if r < 0.55:
                v.append(rnd.choice(p))
            elif r < 0.8:
                c = rnd.choice(p)
                v.append(max(lo, min(hi, c + rnd.randint(-40, 40))))
            else:
                v.append(rnd.randint(lo, hi))
        if tuple(v) not in seen:
            seen.add(tuple(v))
            vecs.append(v)
    return vecs


# ------------------------------------------------------------------ per-kernel work (runs in a worker process)

G = {}   # globals inherited by forked workers: funcs, allocs, enums, spec kernels, native outputs


def encode_kernel(kspec, variant, bounds=None):
    funcs, allocs, resolver = G["mir"][variant]
    fn = funcs.get(kspec.name)
    if fn is None:
        raise Refuse("kernel %s not found in MIR dump" % kspec.name)
    enc = mirenc.Encoder(fn, allocs, G["enums"], name_prefix="", debug_assertions=(variant == "dbg"), bounds=bounds,
                         resolver=resolver)
    enc.run()
    return enc


def box_cond(ins, box):
    cs = []
    for idx, (lo, hi) in sorted(box.items()):
        cs.append(ins[idx] >= lo)
        cs.append(ins[idx] <= hi)
    return z3.And(cs) if cs else z3.BoolVal(True)


def forward_eval(enc, ins, vec):
    """Evaluate the encoding on concrete inputs by walking the (ordered, definitional) constraints
    with an incrementally extended z3 model: `v == term` defs are evaluated directly; multi-variable
    defs (div/mod, bit decompositions) by a tiny local solver call. Returns (eval function, error)."""
    m = z3.Model()
    known = set()
    for c, val in zip(ins, vec):
        m.update_value(c, z3.BoolVal(bool(val)) if z3.is_bool(c) else z3.IntVal(val))
        known.add(c.get_id())

    def ev(t):
        return m.eval(t, model_completion=False)

    for defined, cons in enc.defs:
        if all(d in known for d in defined):
            continue
        done = False
        if len(defined) == 1 and z3.is_eq(cons):
            lhs, rhs = cons.children()
            if z3.is_const(lhs) and lhs.get_id() == defined[0] and all(i in known for i in solve.consts_of(rhs)):
                val = ev(rhs)
                if z3.is_int_value(val) or z3.is_true(val) or z3.is_false(val):
                    m.update_value(lhs, val)
                    known.add(defined[0])
                    done = True
        if not done:
            s = z3.Solver()
            s.set("timeout", 10000)
            # NB: never evaluate a term with still-unassigned constants through the model: z3's model
            # evaluator caches the partially evaluated sub-terms and later returns them stale.
            cs = solve.consts_of(cons)
            pairs = [(c, m.eval(c, model_completion=False)) for i, c in cs.items() if i in known]
            s.add(z3.simplify(z3.substitute(cons, *pairs)) if pairs else cons)
            r = s.check()
            if r != z3.sat:
                return None, "def %s: %s" % (str(cons)[:120], r)
            lm = s.model()
            for did in defined:
                cst = enc.const_by_id[did]
                m.update_value(cst, lm.eval(cst, model_completion=True))
                known.add(did)
    def evc(t):
        return z3.simplify(m.eval(t, model_completion=True))
    return evc, None


def validate(enc, kspec, variant, ret_ty):
    ins = [c for (_, c, _) in enc.inputs]
    vres = {"vectors": 0, "mismatches": [], "samples": [], "undecided": 0}
    nat = G["native"].get((kspec.name, variant), [])
    panic_any = z3.Or([ob.cond for ob in enc.obligations]) if enc.obligations else z3.BoolVal(False)

    class M:
        def __init__(self, ev):
            self.ev = ev

        def eval(self, t, model_completion=True):
            return self.ev(t)

    for vec, natout in nat:
        vres["vectors"] += 1
        ev, err = forward_eval(enc, ins, vec)
        if ev is None:
            if "unsat" in err:
                vres["mismatches"].append({"inputs": vec, "native": natout, "encoding": "inconsistent on concrete inputs: " + err})
            else:
                vres["undecided"] += 1
            continue
        m = M(ev)
        enc_panics = z3.is_true(ev(panic_any))
        enc_returns = z3.is_true(ev(enc.ret_cond))
        if natout == "PANIC":
            if not enc_panics or enc_returns:
                vres["mismatches"].append({"inputs": vec, "native": natout, "encoding": "returns=%s panics=%s" % (enc_returns, enc_panics)})
        elif natout.startswith("OK "):
            try:
                pv = DebugParser(natout[3:]).parse(ret_ty)
                evv = eval_value(m, enc.ret_val, ret_ty) if enc_returns else "NO-RETURN"
            except Exception as e:
                pv, evv = natout, "eval failed: %s" % e
            if enc_panics or pv != evv:
                vres["mismatches"].append({"inputs": vec, "native": natout, "encoding": repr(evv), "enc_panics": enc_panics})
            elif len(vres["samples"]) < 3:
                vres["samples"].append({"inputs": vec, "native": natout})
        else:
            vres["mismatches"].append({"inputs": vec, "native": natout, "encoding": "?"})
    return vres


def worker(job):
    """job = (kernel index, variant, chunk, nchunks): chunk c handles the input boxes with index = c mod nchunks;
    chunk 0 also runs the translator validation and the box-cover check. Returns a picklable result dict."""
    ki, variant, chunk, nchunks = job
    kspec = G["kernels"][ki]
    tier = G.get("tier", "quick")
    res = {"kernel": kspec.name, "variant": variant, "status": "ok", "obligations": [], "pending": [],
           "validation": None, "notes": [], "stats": {}}
    t0 = time.time()
    try:
        enc0 = encode_kernel(kspec, variant)
    except Refuse as e:
        res["status"] = "refused"
        res["reason"] = str(e)
        return res
    except Exception as e:
        res["status"] = "error"
        res["reason"] = "encoder crashed: %s\n%s" % (e, traceback.format_exc()[-1500:])
        return res
    fn = enc0.fn
    res["stats"] = dict(enc0.stats, mir_lines=fn.nlines, defs=len(enc0.defs), nonlinear=enc0.nonlinear,
                        inlined=sorted(set(x.split("::<")[0] for x in fn.inlined if "jiff" in x))[:60],
                        opaque_calls=enc0.opaque_calls, inlined_calls=enc0.inlined_calls, encode_s=round(time.time() - t0, 3))
    res["notes"] = sorted(set(enc0.notes))
    try:
        ret_ty = parse_ty(fn.ret)
    except ValueError as e:
        res["status"] = "error"
        res["reason"] = str(e)
        return res
    res["chunk"] = chunk
    res["validation"] = validate(enc0, kspec, variant, ret_ty) if chunk == 0 else None
    ins0 = [c for (_, c, _) in enc0.inputs]
    boxes = kspec.boxes(tier)
    res["boxes"] = len(boxes)
    quick_ms = G.get("quick_ms", 1500)
    inproc = G.get("inproc", True)
    # the boxes must cover the precondition
    if boxes != [None] and chunk == 0:
        sc = z3.Solver()
        sc.set("timeout", 60000)
        for _, c in enc0.defs[:len(ins0)]:
            pass
        for (nm, c, ty) in enc0.inputs:
            if ty != "bool":
                lo, hi = ty_range(ty)
                sc.add(c >= lo, c <= hi)
        sc.add(kspec.pre(ins0))
        sc.add(z3.Not(z3.Or([box_cond(ins0, b) for b in boxes])))
        r = sc.check()
        res["obligations"].append({"kind": "cover", "label": "input boxes cover the precondition (%d boxes)" % len(boxes),
                                   "expect": "unsat", "result": str(r), "solver": "z3py-inproc", "secs": 0.0})
    for bi, box in enumerate(boxes):
        if bi % nchunks != chunk:
            continue
        blabel = None if box is None or len(boxes) == 1 else "box %d/%d %s" % (bi + 1, len(boxes), json.dumps({str(k): v for k, v in box.items()}))
        try:
            enc = enc0 if box is None else encode_kernel(kspec, variant, bounds=box)
        except Refuse as e:
            res["status"] = "refused"
            res["reason"] = str(e)
            return res
        ins = [c for (_, c, _) in enc.inputs]
        out = speclib.Out(enc.ret_val)
        pre = kspec.pre(ins)
        obls = []
        for ob in enc.obligations:
            if ob.kind == "allocfail":
                res["notes"].append("allocation-failure path not checked: " + ob.label)
                continue
            if any(rx.search(ob.label) for rx in kspec.allow_panic):
                res["notes"].append("documented panic not checked: " + ob.label)
                continue
            if ob.kind == "unsupported":
                if not kspec.probe_only:
                    obls.append(("infeasible", ob.label, ob.cond))
                continue
            if not kspec.nopanic or kspec.probe_only:
                continue
            obls.append(("nopanic:" + ob.kind, ob.label, ob.cond))
        try:
            roles = [(fid, rfn(ins)) for fid, rfn in kspec.known]
            outside = z3.And([z3.Not(r) for _, r in roles]) if roles else z3.BoolVal(True)
            for label, fnc in kspec.claims:
                if not kspec.probe_only:
                    obls.append(("claim", label, z3.And(outside, enc.ret_cond, z3.Not(fnc(ins, out)))))
            wits = []
            if roles and bi == 0:
                anyclaim = z3.Or([z3.Not(fnc(ins, out)) for _, fnc in kspec.claims])
                for fid, r in roles:
                    wits.append(("known:" + fid, "known finding %s still reproduces inside its role" % fid, z3.And(r, enc.ret_cond, anyclaim)))
            if bi == 0:
                wits.append(("witness", "kernel returns for some input satisfying pre", enc.ret_cond))
                for label, fnc in kspec.witnesses:
                    wits.append(("witness", label, z3.And(enc.ret_cond, fnc(ins, out))))
        except Exception as e:
            res["status"] = "error"
            res["reason"] = "spec construction failed: %s\n%s" % (e, traceback.format_exc()[-1500:])
            return res
        sl = solve.Sliced(enc.defs)
        s2 = z3.Solver()
        s2.set("timeout", quick_ms)
        for _, c in enc.defs:
            s2.add(c)
        s2.add(pre)

        def add_query(kind, label, goal, expect):
            g = z3.And(pre, goal)
            entry = {"kind": kind, "label": label if blabel is None else "%s [%s]" % (label, blabel), "expect": expect}
            t1 = time.time()
            if inproc:
                s2.push()
                s2.add(goal)
                r = s2.check()
                if r == z3.unsat and expect == "unsat":
                    s2.pop()
                    entry.update(result="unsat", solver="z3py-inproc", secs=round(time.time() - t1, 3))
                    res["obligations"].append(entry)
                    return
                if r == z3.sat and expect in ("sat", "either"):
                    m = s2.model()
                    entry.update(result="sat", solver="z3py-inproc", secs=round(time.time() - t1, 3),
                                 model={str(c): (z3.is_true(m.eval(c, model_completion=True)) if z3.is_bool(c) else m.eval(c, model_completion=True).as_long()) for c in ins},
                                 inputs=[str(c) for c in ins])
                    s2.pop()
                    res["obligations"].append(entry)
                    return
                s2.pop()
            cons, consts = sl.slice([g])
            for c in ins:
                consts[c.get_id()] = c
            entry["smt2"] = solve.smt2_text(cons, consts, g, get_values=ins)
            entry["inputs"] = [str(c) for c in ins]
            if os.environ.get("VERIF_DUMP_SMT"):
                fnm = re.sub(r"[^A-Za-z0-9_]+", "_", "%s_%s_%s" % (kspec.name, variant, entry["label"]))[:120]
                with open(os.path.join(os.environ["VERIF_DUMP_SMT"], fnm + ".smt2"), "w") as fh:
                    fh.write(entry["smt2"])
            res["pending"].append(entry)

        for kind, label, goal in obls:
            add_query(kind, label, goal, "unsat")
        for kind, label, goal in wits:
            add_query(kind, label, goal, "either" if kind.startswith("known:") else "sat")
    res["n_claims"] = len(kspec.claims)
    res["total_s"] = round(time.time() - t0, 3)
    return res


def replay_check(kspec, variant, model_inputs, scratch, fn):
    """Run the native kernel on a solver model; return dict(confirmed, native, which claims fail)."""
    vec = [int(model_inputs[c]) if not isinstance(model_inputs[c], bool) else int(model_inputs[c]) for c in model_inputs]
    prof = "va" if variant == "rel" else "vd"
    out = scratch.run_native(prof, [(kspec.name, vec)])[0]
    info = {"inputs": vec, "native": out, "profile": prof}
    ins = []
    for (_, ty), val in zip(fn.args, vec):
        ins.append(z3.BoolVal(bool(val)) if ty == "bool" else z3.IntVal(val))
    pre_ok = z3.is_true(z3.simplify(kspec.pre(ins)))
    info["pre_holds"] = pre_ok
    if out == "PANIC":
        info["panics"] = True
        info["failed_claims"] = []
        return info
    info["panics"] = False
    failed = []
    if out.startswith("OK "):
        try:
            pv = DebugParser(out[3:]).parse(parse_ty(fn.ret))
            o = speclib.Out(concrete_value(parse_ty(fn.ret), pv))
            for label, fnc in kspec.claims:
                try:
                    r = z3.simplify(fnc(ins, o))
                except KeyError:
                    continue
                if z3.is_false(r):
                    failed.append(label)
                elif not z3.is_true(r):
                    # claim did not reduce to a constant: decide with the solver
                    s = z3.Solver()
                    s.add(z3.Not(r))
                    if s.check() == z3.sat:
                        failed.append(label)
        except Exception as e:
            info["replay_error"] = str(e)
    info["failed_claims"] = failed
    return info


def count_args(argtxt):
    return len(re.findall(r"(?:^|, )_\d+: ", argtxt))


def first_arg_type(argtxt):
    m = re.match(r"_1: (.*?)(?:, _2: |$)", argtxt)
    if not m:
        return None
    t = m.group(1).strip()
    t = re.sub(r"^&('\w+ )?(mut )?", "", t)
    t = mirenc.strip_generics(t)
    return t.split("::")[-1]


def make_resolver(vk_all, jix, vix=None):
    """callee text at a call site -> parsed Function (or None): first the wrapper crate's own
    helpers, then monomorphic functions of the jiff crate located in its MIR dump"""
    def ret_type_of(c):
        hdr_end = jix.text.find("\n", c[2])
        hdr = jix.text[c[2]:hdr_end]
        r = hdr.rfind(") -> ")
        t = hdr[r + 5:].rstrip(" {")
        return mirenc.strip_generics(t).split("::")[-1]

    def resolve(func, nargs, conv=None, promoted=None, named_const=None, closure=None):
        if closure is not None:
            # closure named by its parent path (`Date::iso_week_date::{closure#0}`) or by source location
            for ix in (vix, jix):
                if ix is None:
                    continue
                mm = re.search(r"(\w+)::(\{closure#\d+\})$", closure)
                cands = []
                if mm:
                    tail = "::%s::%s" % (mm.group(1), mm.group(2))
                    cands = [c for c in ix.candidates(mm.group(2)) if c[0].endswith(tail)]
                    if len(cands) > 1:
                        # `Type::method::{closure#n}`: several types have a method of that name; jiff keeps each
                        # type in the module of the same (lower-case) name
                        mo = re.search(r"(\w+)::\w+::\{closure#\d+\}$", mirenc.strip_generics(closure))
                        if mo:
                            want = mo.group(1).lower()
                            c2 = [c for c in cands if c[0].split("::<impl")[0].split("::")[-1] == want]
                            if len(c2) != 1:
                                # the method (parent of the closure) whose receiver is the named type
                                c2 = []
                                for c in cands:
                                    parent = c[0][:c[0].rfind("::{closure#")]
                                    ps = [q for q in ix.candidates(mm.group(1)) if q[0] == parent]
                                    if len(ps) == 1 and first_arg_type(ps[0][1]) == mo.group(1):
                                        c2.append(c)
                            if len(c2) == 1:
                                cands = c2
                else:
                    loc = closure.strip()
                    for last, lst in ix.by_last.items():
                        if last.startswith("{closure#"):
                            cands += [c for c in lst if ("{closure@%s}" % loc) in c[1]]
                if len(cands) == 1:
                    return ix.get(cands[0][2])
            return None
        if named_const is not None:
            for ix in (jix, vix):
                if ix is None:
                    continue
                f = ix.get_named_const(*named_const)
                if f is not None:
                    return f
            return None
        if promoted is not None:
            last, idx, owner = promoted
            own = owner.split("::")[-2] if owner.count("::") else None
            for ix in (vix, jix):
                if ix is None:
                    continue
                f = ix.get_promoted(last, idx, own)
                if f is not None:
                    return f
            return None
        if conv is not None:
            if jix is None:
                return None
            src, tgt = conv
            cs = [c for c in jix.candidates("from") if count_args(c[1]) == 1 and first_arg_type(c[1]) == src and ret_type_of(c) == tgt]
            if len(cs) > 1:
                # `impl From<T>` and `impl From<&T>`: the value reaching us is by value
                cs = [c for c in cs if not c[1].strip().startswith("_1: &")]
            return jix.get(cs[0][2]) if len(cs) == 1 else None
        f = mirenc.norm_callee(func)
        if "{closure" in f:
            return None
        mq = re.match(r"^QSELF\[(.+?) as (.+)\]::(\w+)$", f)
        if mq:
            # `<T as Trait>::method`: the impl's method takes T (or &T) first, or returns T when it has no arguments
            if jix is None:
                return None
            owner = mirenc.strip_generics(mq.group(1)).split("::")[-1].strip("&").strip()
            meth = mq.group(3)
            cs = [c for c in jix.candidates(meth) if count_args(c[1]) == nargs and "<impl at" in c[0] and "{closure" not in c[0]]
            if nargs > 0:
                cs = [c for c in cs if first_arg_type(c[1]) == owner]
            else:
                cs = [c for c in cs if ret_type_of(c) == owner]
            return jix.get(cs[0][2]) if len(cs) == 1 else None
        if f.startswith("QSELF["):
            return None
        # a generic instantiation resolves to the polymorphic body; that is only usable when the body's
        # generic-dependent calls are conversions the encoder dispatches on value tags (otherwise the
        # encoder refuses inside the body). Ranged-integer generics are never taken from the dump.
        if "rangeint::" in f or re.match(r"^(?:\w+::)*ri(?:8|16|32|64|128)::<", f):
            return None
        sg = mirenc.strip_generics(f)
        segs = sg.split("::")
        last = segs[-1]
        mi = re.search(r"<impl (.+)>::(\w+)$", func.strip())
        if mi and len(segs) >= 2:
            # method of an inherent (possibly generic) impl: `path::<impl Type<Args>>::method`
            segs = segs[:-2] + [mirenc.strip_generics(mi.group(1)).split("::")[-1], last]
        loc = vk_all.get(sg) or vk_all.get(last)
        if loc is not None and len(loc.args) == nargs:
            return loc
        if jix is None:
            return None
        cands = [c for c in jix.candidates(last) if count_args(c[1]) == nargs and "{closure" not in c[0]]
        if len(segs) >= 2:
            owner = segs[-2]
            meth = [c for c in cands if "<impl at" in c[0] and first_arg_type(c[1]) == owner]
            free = [c for c in cands if "<impl at" not in c[0] and (c[0].split("::")[-2:-1] in ([owner], []))]
            if len(meth) > 1:
                # same type name in several modules: prefer the impl whose module path matches the call path
                callmod = "::".join(sg.split("::")[:-2])
                m2 = [c for c in meth if callmod.endswith(c[0].split("::<impl")[0])]
                if len(m2) == 1:
                    meth = m2
            if len(meth) == 1:
                return jix.get(meth[0][2])
            if not meth and len(free) == 1:
                return jix.get(free[0][2])
            # associated functions without self (e.g. Date::constrain_ranged): unique by name,
            # or the unique one returning the owner type (constructors such as Time::midnight)
            assoc = [c for c in cands if "<impl at" in c[0]]
            if not meth and not free and len(assoc) == 1:
                return jix.get(assoc[0][2])
            if not meth and not free:
                ctor = [c for c in assoc if ret_type_of(c) == owner]
                if len(ctor) == 1:
                    return jix.get(ctor[0][2])
            return None
        if len(cands) == 1:
            return jix.get(cands[0][2])
        return None
    return resolve


def index_funcs(fs, names):
    """rustc prints trimmed paths (`k_x` when unique, `c01::k_x` otherwise): map spec names to functions"""
    out = {}
    for nm in names:
        last = nm.split("::")[-1]
        f = fs.get(nm) or fs.get(last)
        if f is not None:
            out[nm] = f
    return out


# ------------------------------------------------------------------ property run

def run_property(pid, spec_kernels, modules, tier, seed, timeout_s, scratch_keep=False, only=None, nvec=200,
                 crosscheck=None, jobs=None):
    """Returns a result dict (see evidence.py)."""
    t_start = time.time()
    rank = {"quick": 0, "thorough": 1, "deep": 2}
    kernels = [k for k in spec_kernels if rank.get(k.tier, 2) <= rank.get(tier, 0)]
    if only:
        kernels = [k for k in kernels if re.search(only, k.name)]
    variants = sorted(set(v for k in kernels for v in k.variants))
    R = {"property": pid, "tier": tier, "seed": seed, "kernels": [], "build": {}, "queries": [], "violations": [],
         "inconclusive": [], "refused": [], "engine": "M"}
    crosscheck = (tier in ("thorough", "deep")) if crosscheck is None else crosscheck
    with Scratch(modules, variants, keep=scratch_keep) as sc:
        sc.prepare()
        mir = {}
        for v in variants:
            txt = sc.build_mir(v)
            fs, al = mirparse.parse_mir(txt)
            jix = mirparse.MirIndex(sc.build_jiff_mir(v), "jiff-" + v)
            mir[v] = (index_funcs(fs, [k.name for k in kernels]), al, make_resolver(fs, jix, mirparse.MirIndex(txt, "vkern-" + v)))
        allfuncs = mir[variants[0]][0]
        sc.write_runner({k.name: allfuncs[k.name] for k in kernels if k.name in allfuncs})
        profs = []
        if "rel" in variants:
            profs.append("va")
        if "dbg" in variants:
            profs.append("vd")
        for p in profs:
            sc.build_runner(p)
        enums, amb = mirenc.scan_enums([os.path.join(sc.dir, "jiff", "src")])
        R["build"] = dict(sc.times, mir_lines={v: mir[v] and sum(f.nlines for f in mir[v][0].values()) for v in variants},
                          ambiguous_enums=sorted(amb))
        # native outputs for validation vectors
        native = {}
        jobsN = []
        for k in kernels:
            fn = allfuncs.get(k.name)
            if fn is None:
                continue
            vecs = gen_vectors(fn, k.vectors, seed, nvec)
            for v in k.variants:
                jobsN.append((k, v, vecs))
        for prof, var in (("va", "rel"), ("vd", "dbg")):
            batch = [(k.name, vec) for (k, v, vecs) in jobsN if v == var for vec in vecs]
            if not batch:
                continue
            outs = sc.run_native(prof, batch)
            i = 0
            for (k, v, vecs) in jobsN:
                if v != var:
                    continue
                native[(k.name, v)] = list(zip(vecs, outs[i:i + len(vecs)]))
                i += len(vecs)
        G.update(mir=mir, enums=enums, kernels=kernels, native=native, tier=tier,
                 quick_ms=1500 if tier == "quick" else 3000, inproc=True)
        joblist = []
        for i, k in enumerate(kernels):
            nb = len(k.boxes(tier))
            nch = 1 if nb <= 2 else min(nb, 8)
            for v in k.variants:
                joblist += [(i, v, c, nch) for c in range(nch)]
        nproc = jobs or min(16, max(1, len(joblist)))
        ctx = get_context("fork")
        with ctx.Pool(nproc) as pool:
            parts = pool.map(worker, joblist, chunksize=1)
        # merge the chunks of one (kernel, variant)
        results = []
        bykey = {}
        for r in parts:
            key = (r["kernel"], r["variant"])
            if key not in bykey:
                bykey[key] = r
                results.append(r)
                continue
            b0 = bykey[key]
            if r["status"] != "ok" and b0["status"] == "ok":
                b0["status"], b0["reason"] = r["status"], r.get("reason")
            b0["obligations"] += r["obligations"]
            b0["pending"] += r["pending"]
            b0["notes"] = sorted(set(b0["notes"]) | set(r["notes"]))
            if b0.get("validation") is None and r.get("validation") is not None:
                b0["validation"] = r["validation"]
        # ---- portfolio for pending queries
        pend = []
        for r in results:
            for q in r["pending"]:
                pend.append((r, q))
        log("[%s] %d kernels encoded, %d obligations discharged in-process, %d queries to the portfolio" % (
            pid, len(results), sum(len(r["obligations"]) for r in results), len(pend)))
        kmap = {k.name: k for k in kernels}

        def solve_one(item):
            r, q = item
            k = kmap[r["kernel"]]
            to = k.timeout or timeout_s
            which = k.solvers or ("z3", "cvc5")
            out = solve.run_portfolio(q["smt2"], to, which=which, crosscheck=crosscheck, workdir=sc.dir, tag="q")
            return r, q, out

        with ThreadPoolExecutor(max_workers=8) as ex:
            solved = list(ex.map(solve_one, pend))
        for r, q, out in solved:
            q2 = {k: v for k, v in q.items() if k != "smt2"}
            q2.update(result=out["result"], solver=out["solver"], secs=out["secs"], detail=out["detail"])
            if out.get("model") is not None:
                q2["model"] = out["model"]
            if out.get("errtext"):
                q2["errtext"] = out["errtext"]
            q2["smt2_bytes"] = len(q["smt2"])
            r["obligations"].append(q2)
        # ---- interpret
        for r in results:
            k = kmap[r["kernel"]]
            r.pop("pending", None)
            if r["status"] == "refused":
                R["refused"].append({"kernel": r["kernel"], "variant": r["variant"], "reason": r["reason"]})
                continue
            if r["status"] == "error":
                R["inconclusive"].append({"kernel": r["kernel"], "variant": r["variant"], "why": r["reason"]})
                continue
            if r["validation"].get("undecided", 0) * 4 > r["validation"]["vectors"]:
                R["inconclusive"].append({"kernel": r["kernel"], "variant": r["variant"],
                                          "why": "translator validation undecided on %d of %d vectors" % (r["validation"]["undecided"], r["validation"]["vectors"])})
            if r["validation"]["mismatches"]:
                R["inconclusive"].append({"kernel": r["kernel"], "variant": r["variant"],
                                          "why": "translator validation mismatch", "first": r["validation"]["mismatches"][:3]})
            fn = mir[r["variant"]][0][r["kernel"]]
            for q in r["obligations"]:
                exp = q["expect"]
                res = q["result"]
                if exp == "either":
                    if res == "sat":
                        mi = q.get("model") or {}
                        order = q.get("inputs") or sorted(mi)
                        model_inputs = {nm: mi[nm] for nm in order if nm in mi}
                        rp = replay_check(k, r["variant"], model_inputs, sc, fn)
                        q["replay"] = rp
                        if rp.get("failed_claims") or rp.get("panics"):
                            R.setdefault("known_hits", []).append({"finding": q["kind"].split(":", 1)[1], "kernel": r["kernel"], "replay": rp})
                    continue
                if exp == "sat":
                    if res != "sat":
                        R["inconclusive"].append({"kernel": r["kernel"], "variant": r["variant"], "query": q["label"],
                                                  "why": "vacuity witness not satisfiable (%s)" % res})
                    continue
                if res == "unsat":
                    continue
                if res == "sat":
                    mi = q.get("model") or {}
                    order = q.get("inputs") or sorted(mi)
                    model_inputs = {nm: mi[nm] for nm in order if nm in mi}
                    if len(model_inputs) != len(fn.args):
                        R["inconclusive"].append({"kernel": r["kernel"], "variant": r["variant"], "query": q["label"],
                                                  "why": "sat but model incomplete", "model": mi})
                        continue
                    rp = replay_check(k, r["variant"], model_inputs, sc, fn)
                    q["replay"] = rp
                    confirmed = False
                    if q["kind"].startswith("nopanic") and rp["panics"]:
                        confirmed = True
                    if q["kind"] == "claim" and rp["failed_claims"]:
                        confirmed = True
                    if confirmed and rp["pre_holds"]:
                        R["violations"].append({"kernel": r["kernel"], "variant": r["variant"], "query": q["label"],
                                                "kind": q["kind"], "replay": rp})
                    else:
                        R["inconclusive"].append({"kernel": r["kernel"], "variant": r["variant"], "query": q["label"],
                                                  "why": "solver model does not reproduce natively (encoding or spec suspect)", "replay": rp})
                else:
                    R["inconclusive"].append({"kernel": r["kernel"], "variant": r["variant"], "query": q["label"],
                                              "why": "solver result %s" % res, "detail": q.get("detail"), "errtext": q.get("errtext")})
        R["kernels"] = results
        # extra replays of violations on the stock profiles are done by the caller if needed
    R["wall_s"] = round(time.time() - t_start, 2)
    return R
