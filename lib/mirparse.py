"""Parser for rustc's `-Zunpretty=mir` text output (nightly pinned in this image).

Only the subset that occurs in inlined, optimised jiff kernels is understood;
anything else raises MirSyntaxError so that the caller refuses the kernel
rather than guessing.

Data model (plain tuples / small classes, all immutable after parsing):

  Function: name, args [(local, type)], ret type, locals {local: type},
            blocks {bbN: Block}, order [bbN...]
  Block:    stmts [Stmt], term Terminator, cleanup bool
  Place:    local:int, proj: tuple of projection elems
            elems: ('deref',), ('field', idx, type), ('downcast', name),
                   ('index', local), ('cindex', off, minlen, from_end),
                   ('subslice', a, b, from_end)
  Operand:  ('copy', Place) | ('move', Place) | ('const', Const)
  Const:    text (raw), parsed lazily by the encoder
  Rvalue:   ('use', Operand) | ('cast', Operand, type, kind)
            | ('binop', name, Operand, Operand) | ('unop', name, Operand)
            | ('ref', mutbl, Place) | ('rawptr', mutbl, Place)
            | ('discr', Place) | ('len', Place)
            | ('agg', kind, info, [Operand]) | ('nullop', name, text)
            | ('repeat', Operand, count_text) | ('copyderef', Place)
            | ('shallowbox', Operand, type)
"""
import re


class MirSyntaxError(Exception):
    pass


class Place:
    __slots__ = ("local", "proj")

    def __init__(self, local, proj=()):
        self.local = local
        self.proj = tuple(proj)

    def __repr__(self):
        return "Place(_%d%s)" % (self.local, "".join(str(p) for p in self.proj))


class Block:
    __slots__ = ("name", "stmts", "term", "cleanup")

    def __init__(self, name, cleanup):
        self.name = name
        self.stmts = []
        self.term = None
        self.cleanup = cleanup


class Function:
    def __init__(self, name):
        self.name = name
        self.args = []
        self.ret = None
        self.locals = {}
        self.blocks = {}
        self.order = []
        self.nlines = 0
        self.inlined = []  # names of inlined callees (from scope comments)


BINOPS = {
    "Add", "Sub", "Mul", "Div", "Rem", "BitXor", "BitAnd", "BitOr", "Shl",
    "Shr", "Eq", "Lt", "Le", "Ne", "Ge", "Gt", "Cmp", "Offset",
    "AddWithOverflow", "SubWithOverflow", "MulWithOverflow", "AddUnchecked",
    "SubUnchecked", "MulUnchecked", "ShlUnchecked", "ShrUnchecked",
}
UNOPS = {"Not", "Neg", "PtrMetadata"}


class Scanner:
    """Character scanner with helpers for Rust-ish nesting."""

    def __init__(self, s):
        self.s = s
        self.i = 0

    def eof(self):
        return self.i >= len(self.s)

    def ws(self):
        while self.i < len(self.s) and self.s[self.i] in " \t\n":
            self.i += 1

    def peek(self, n=1):
        return self.s[self.i:self.i + n]

    def startswith(self, t):
        return self.s.startswith(t, self.i)

    def eat(self, t):
        self.ws()
        if self.s.startswith(t, self.i):
            self.i += len(t)
            return True
        return False

    def expect(self, t):
        if not self.eat(t):
            raise MirSyntaxError("expected %r at %r" % (t, self.s[self.i:self.i + 60]))

    def rest(self):
        return self.s[self.i:]

    def string_lit(self):
        # at opening quote; returns raw contents
        assert self.s[self.i] == '"'
        j = self.i + 1
        while True:
            c = self.s[j]
            if c == "\\":
                j += 2
                continue
            if c == '"':
                break
            j += 1
        r = self.s[self.i + 1:j]
        self.i = j + 1
        return r

    def balanced_until(self, stops):
        """Consume text until one of the stop strings occurs at nesting depth
        0 of (), [], {}, <>. Returns the consumed text (stop not consumed)."""
        s = self.s
        i = self.i
        depth = 0
        start = i
        n = len(s)
        while i < n:
            c = s[i]
            if depth == 0:
                for st in stops:
                    if s.startswith(st, i):
                        self.i = i
                        return s[start:i]
            if c == '"':
                self.i = i
                self.string_lit()
                i = self.i
                continue
            if c == "'":
                # char literal or lifetime
                m = re.match(r"'(\\.|[^\\'])'", s[i:i + 6])
                if m:
                    i += m.end()
                    continue
                i += 1
                continue
            if c in "([{":
                depth += 1
            elif c in ")]}":
                if depth == 0:
                    self.i = i
                    return s[start:i]
                depth -= 1
            elif c == "<":
                # generic bracket unless comparison-like (not in MIR types)
                depth += 1
            elif c == ">":
                if i > 0 and s[i - 1] == "-":
                    pass  # '->'
                elif i > 0 and s[i - 1] == "=":
                    pass  # '=>'
                else:
                    if depth == 0:
                        self.i = i
                        return s[start:i]
                    depth -= 1
            i += 1
        self.i = i
        return s[start:i]


def parse_place(sc):
    """Parse a place expression at the scanner position."""
    sc.ws()
    if sc.eat("("):
        sc.ws()
        if sc.eat("*"):
            inner = parse_place(sc)
            sc.expect(")")
            pl = Place(inner.local, inner.proj + (("deref",),))
        else:
            inner = parse_place(sc)
            sc.ws()
            if sc.eat("as "):
                # downcast: (P as Variant)
                name = sc.balanced_until([")"]).strip()
                sc.expect(")")
                # variant name may be like `variant#3` for coroutines
                pl = Place(inner.local, inner.proj + (("downcast", name),))
            elif sc.eat("."):
                m = re.match(r"\d+", sc.rest())
                if not m:
                    raise MirSyntaxError("field index at %r" % sc.rest()[:40])
                idx = int(m.group(0))
                sc.i += m.end()
                sc.expect(":")
                ty = sc.balanced_until([")"]).strip()
                sc.expect(")")
                pl = Place(inner.local, inner.proj + (("field", idx, ty),))
            else:
                raise MirSyntaxError("place paren at %r" % sc.rest()[:60])
    else:
        m = re.match(r"_(\d+)", sc.rest())
        if not m:
            raise MirSyntaxError("place at %r" % sc.rest()[:60])
        sc.i += m.end()
        pl = Place(int(m.group(1)))
    # postfix index projections
    while True:
        if sc.startswith("["):
            sc.i += 1
            txt = sc.balanced_until(["]"]).strip()
            sc.expect("]")
            m = re.fullmatch(r"_(\d+)", txt)
            if m:
                pl = Place(pl.local, pl.proj + (("index", int(m.group(1))),))
                continue
            m = re.fullmatch(r"(-?)(\d+) of (\d+)", txt)
            if m:
                pl = Place(pl.local, pl.proj + (("cindex", int(m.group(2)), int(m.group(3)), m.group(1) == "-"),))
                continue
            m = re.fullmatch(r"(\d+):(-?)(\d*)", txt) or re.fullmatch(r"(\d+)\.\.(-?)(\d*)", txt)
            if m:
                pl = Place(pl.local, pl.proj + (("subslice", int(m.group(1)), m.group(3), m.group(2) == "-"),))
                continue
            raise MirSyntaxError("index projection %r" % txt)
        break
    return pl


def parse_operand(sc):
    sc.ws()
    if sc.eat("copy "):
        return ("copy", parse_place(sc))
    if sc.eat("move "):
        return ("move", parse_place(sc))
    if sc.eat("const "):
        txt = sc.balanced_until([",", ")", "]", ";", " as ", " -> "]).strip()
        return ("const", txt)
    raise MirSyntaxError("operand at %r" % sc.rest()[:80])


def parse_operand_list(sc, close):
    ops = []
    sc.ws()
    if sc.eat(close):
        return ops
    while True:
        ops.append(parse_operand(sc))
        sc.ws()
        if sc.eat(","):
            sc.ws()
            if sc.eat(close):  # trailing comma e.g. (x,)
                return ops
            continue
        sc.expect(close)
        return ops


def parse_rvalue(text):
    if text.lstrip().startswith("no_retag "):
        text = text.lstrip()[len("no_retag "):]
    sc = Scanner(text)
    sc.ws()
    # references
    m = re.match(r"&raw (const|mut) ", sc.rest())
    if m:
        sc.i += m.end()
        pl = parse_place(sc)
        _end(sc)
        return ("rawptr", m.group(1) == "mut", pl)
    m = re.match(r"&('\w+ )?(mut |fake shallow |fake )?", sc.rest())
    if sc.peek() == "&" and m:
        sc.i += m.end()
        pl = parse_place(sc)
        _end(sc)
        return ("ref", (m.group(2) or "").strip() == "mut", pl)
    if sc.startswith("copy ") or sc.startswith("move ") or sc.startswith("const "):
        op = parse_operand(sc)
        sc.ws()
        if sc.eat("as "):
            rest = sc.rest().strip()
            m = re.match(r"(.*) \(([A-Za-z]+(?:\(.*\))?(?:, [A-Za-z]+)?)\)$", rest, re.S)
            if not m:
                raise MirSyntaxError("cast %r" % rest)
            return ("cast", op, m.group(1).strip(), m.group(2))
        _end(sc)
        return ("use", op)
    m = re.match(r"([A-Za-z]+)\(", sc.rest())
    if m and m.group(1) in BINOPS:
        sc.i += m.end()
        a = parse_operand(sc)
        sc.expect(",")
        b = parse_operand(sc)
        sc.expect(")")
        _end(sc)
        return ("binop", m.group(1), a, b)
    if m and m.group(1) in UNOPS:
        sc.i += m.end()
        a = parse_operand(sc)
        sc.expect(")")
        _end(sc)
        return ("unop", m.group(1), a)
    if m and m.group(1) == "discriminant":
        sc.i += m.end()
        pl = parse_place(sc)
        sc.expect(")")
        _end(sc)
        return ("discr", pl)
    if m and m.group(1) == "Len":
        sc.i += m.end()
        pl = parse_place(sc)
        sc.expect(")")
        _end(sc)
        return ("len", pl)
    if m and m.group(1) == "CopyForDeref":
        sc.i += m.end()
        pl = parse_place(sc)
        sc.expect(")")
        _end(sc)
        return ("copyderef", pl)
    if m and m.group(1) in ("SizeOf", "AlignOf", "UbChecks", "OffsetOf", "ContractChecks", "OverflowChecks"):
        return ("nullop", m.group(1), text.strip())
    if m and m.group(1) == "ShallowInitBox":
        sc.i += m.end()
        a = parse_operand(sc)
        sc.expect(",")
        ty = sc.balanced_until([")"]).strip()
        sc.expect(")")
        return ("shallowbox", a, ty)
    # tuple aggregate
    if sc.peek() == "(":
        sc.i += 1
        ops = parse_operand_list(sc, ")")
        _end(sc)
        return ("agg", "tuple", None, ops)
    # array aggregate / repeat
    if sc.peek() == "[":
        sc.i += 1
        sc.ws()
        if sc.eat("]"):
            return ("agg", "array", None, [])
        first = parse_operand(sc)
        sc.ws()
        if sc.eat(";"):
            cnt = sc.balanced_until(["]"]).strip()
            sc.expect("]")
            return ("repeat", first, cnt)
        ops = [first]
        while True:
            sc.ws()
            if sc.eat("]"):
                break
            sc.expect(",")
            sc.ws()
            if sc.eat("]"):
                break
            ops.append(parse_operand(sc))
        _end(sc)
        return ("agg", "array", None, ops)
    # closure aggregate
    if sc.peek() == "{":
        # {closure@path:line:col: line:col} or {coroutine@...}
        j = _match_brace(text, sc.i)
        head = text[sc.i:j + 1]
        sc.i = j + 1
        sc.ws()
        ops = []
        if sc.eat("{"):
            # named captures  { x: move _1, y: copy _2 }
            ops = _parse_named_fields(sc)
        _end(sc)
        return ("agg", "closure", head, ops)
    # ADT aggregate: Path { f: op, ... } | Path(op, ...) | Path   (unit)
    path = sc.balanced_until([" {", "("]).strip()
    sc.ws()
    if sc.eat("{"):
        ops = _parse_named_fields(sc)
        _end(sc)
        return ("agg", "adt", path, ops)
    if sc.eat("("):
        ops = parse_operand_list(sc, ")")
        _end(sc)
        return ("agg", "adt", path, ops)
    if sc.eof():
        return ("agg", "adt", path, [])
    raise MirSyntaxError("rvalue %r" % text)


def _match_brace(s, i):
    assert s[i] == "{"
    d = 0
    while i < len(s):
        if s[i] == "{":
            d += 1
        elif s[i] == "}":
            d -= 1
            if d == 0:
                return i
        i += 1
    raise MirSyntaxError("unbalanced brace")


def _parse_named_fields(sc):
    ops = []
    while True:
        sc.ws()
        if sc.eat("}"):
            return ops
        m = re.match(r"[A-Za-z_0-9]+\s*:\s*", sc.rest())
        if not m:
            raise MirSyntaxError("named field at %r" % sc.rest()[:60])
        sc.i += m.end()
        ops.append(parse_operand(sc))
        sc.ws()
        sc.eat(",")


def _end(sc):
    sc.ws()
    if not sc.eof():
        raise MirSyntaxError("trailing %r" % sc.rest()[:80])


def parse_targets(txt):
    """'[0: bb1, 1: bb2, otherwise: bb3]' or '[return: bb1, unwind continue]'"""
    txt = txt.strip()
    out = {}
    if not txt.startswith("["):
        # 'bb36' / 'unwind continue' / 'unwind unreachable'
        m = re.match(r"bb(\d+)", txt)
        if m:
            out["unwind"] = "bb" + m.group(1)
        return out
    inner = txt[1:txt.rindex("]")]
    for part in inner.split(","):
        part = part.strip()
        m = re.match(r"(-?\w+): (bb\d+)$", part)
        if m:
            out[m.group(1)] = m.group(2)
        elif part.startswith("unwind"):
            m = re.match(r"unwind: (bb\d+)", part)
            if m:
                out["unwind"] = m.group(1)
        else:
            raise MirSyntaxError("target %r" % part)
    return out


def split_top_arrow(line):
    """Split 'XXX -> TARGETS' at the last top-level ' -> '."""
    depth = 0
    i = 0
    last = -1
    n = len(line)
    in_str = False
    while i < n:
        c = line[i]
        if in_str:
            if c == "\\":
                i += 2
                continue
            if c == '"':
                in_str = False
        else:
            if c == '"':
                in_str = True
            elif c in "([{":
                depth += 1
            elif c in ")]}":
                depth -= 1
            elif depth == 0 and line.startswith(" -> ", i):
                last = i
        i += 1
    if last < 0:
        return line, None
    return line[:last], line[last + 4:]


def find_call_paren(s):
    """index of the '(' that opens the argument list of a call 'FUNC(args)'
    (the last top-level paren group)."""
    # args list is the final balanced (...) group at the end of s
    s = s.rstrip()
    if not s.endswith(")"):
        raise MirSyntaxError("call %r" % s)
    depth = 0
    i = len(s) - 1
    in_str = False
    while i >= 0:
        c = s[i]
        if in_str:
            if c == '"' and (i == 0 or s[i - 1] != "\\"):
                in_str = False
        else:
            if c == '"':
                in_str = True
            elif c == ")":
                depth += 1
            elif c == "(":
                depth -= 1
                if depth == 0:
                    return i
        i -= 1
    raise MirSyntaxError("call paren %r" % s)


def parse_terminator(line):
    line = line.strip()
    if line.endswith(";"):
        line = line[:-1]
    if line == "return":
        return ("return",)
    if line == "unreachable":
        return ("unreachable",)
    if line in ("resume", "abort", "terminate", "unwind resume") or line.startswith("terminate") or line.startswith("resume"):
        return ("resume",)
    m = re.match(r"goto -> (bb\d+)$", line)
    if m:
        return ("goto", m.group(1))
    if line.startswith("switchInt("):
        head, tg = split_top_arrow(line)
        sc = Scanner(head[len("switchInt("):])
        op = parse_operand(sc)
        sc.expect(")")
        return ("switch", op, parse_targets(tg))
    if line.startswith("assert("):
        head, tg = split_top_arrow(line)
        sc = Scanner(head[len("assert("):])
        sc.ws()
        neg = sc.eat("!")
        op = parse_operand(sc)
        sc.ws()
        msg = sc.rest()
        return ("assert", neg, op, msg[:200], parse_targets(tg))
    if line.startswith("drop("):
        head, tg = split_top_arrow(line)
        sc = Scanner(head[len("drop("):])
        pl = parse_place(sc)
        sc.expect(")")
        return ("drop", pl, parse_targets(tg))
    if line.startswith("falseEdge") or line.startswith("falseUnwind"):
        raise MirSyntaxError("unexpected false edge: " + line)
    # call:  [PLACE = ] FUNC(args) -> targets
    head, tg = split_top_arrow(line)
    dest = None
    m = re.match(r"(\(.*?\)|_\d+)(\[[^\]]*\])? = ", head)
    callee_txt = head
    if m:
        # need a proper split: parse a place then expect ' = '
        sc = Scanner(head)
        try:
            dest = parse_place(sc)
            if sc.startswith(" = "):
                sc.i += 3
                callee_txt = sc.rest()
            else:
                dest = None
                callee_txt = head
        except MirSyntaxError:
            dest = None
            callee_txt = head
    p = find_call_paren(callee_txt)
    func = callee_txt[:p].strip()
    sc = Scanner(callee_txt[p + 1:])
    args = parse_operand_list(sc, ")")
    return ("call", dest, func, args, parse_targets(tg) if tg else {})


STMT_IGNORE = re.compile(r"^(StorageLive|StorageDead|nop|PlaceMention|FakeRead|Retag|Coverage|ConstEvalCounter|AscribeUserType|BackwardIncompatibleDropHint)\b")


def parse_statement(line):
    line = line.strip()
    assert line.endswith(";"), line
    body = line[:-1]
    if STMT_IGNORE.match(body):
        return None
    if body.startswith("assume("):
        sc = Scanner(body[len("assume("):])
        op = parse_operand(sc)
        sc.expect(")")
        return ("assume", op)
    if body.startswith("Deinit("):
        sc = Scanner(body[len("Deinit("):])
        pl = parse_place(sc)
        return ("deinit", pl)
    if body.startswith("discriminant("):
        sc = Scanner(body[len("discriminant("):])
        pl = parse_place(sc)
        sc.expect(")")
        sc.expect("=")
        return ("setdiscr", pl, sc.rest().strip())
    if body.startswith("copy_nonoverlapping("):
        return ("unsupported", body)
    sc = Scanner(body)
    pl = parse_place(sc)
    sc.ws()
    if not sc.startswith("= "):
        raise MirSyntaxError("statement %r" % body)
    sc.i += 2
    rtxt = sc.rest()
    try:
        return ("assign", pl, parse_rvalue(rtxt))
    except MirSyntaxError as e:
        return ("assign", pl, ("unparsed", rtxt[:200], str(e)[:100]))


def is_terminator_line(line):
    l = line.strip()
    if l in ("return;", "unreachable;", "resume;", "abort;") or l.startswith("terminate("):
        return True
    if l.startswith(("goto ->", "switchInt(", "assert(", "drop(", "falseEdge", "falseUnwind", "tailcall ")):
        return True
    # a call: contains ' -> ' at top level followed by targets, or is 'X = f(..) -> ...'
    head, tg = split_top_arrow(l.rstrip(";"))
    if tg is not None and (tg.startswith("[") or tg.startswith("bb") or tg.startswith("unwind")):
        return True
    return False


def join_logical_lines(lines):
    """Statements may span several physical lines (string constants with embedded newlines).
    Join physical lines while inside a string literal (incremental scan; a literal that does not
    close within 40 lines is assumed to be a mis-scan and the lines are emitted as they are)."""
    out = []
    buf = None
    nbuf = 0
    ins = False
    for ln in lines:
        if buf is None and ("\u2502" in ln or "\u257e" in ln):
            # a row of an `allocN { ... }` hex dump: its ASCII column may contain any character
            out.append(ln)
            continue
        # scan this physical line, continuing the in-string state
        i = 0
        n = len(ln)
        while i < n:
            c = ln[i]
            if ins:
                if c == "\\":
                    i += 2
                    continue
                if c == '"':
                    ins = False
            else:
                if c == '"':
                    ins = True
                elif c == "'":
                    m = re.match(r"'(\\.|[^\\'])'", ln[i:i + 6])
                    if m:
                        i += m.end()
                        continue
            i += 1
        if buf is None:
            buf = ln
            nbuf = 1
        else:
            buf = buf + "\n" + ln
            nbuf += 1
        if not ins or nbuf > 40:
            out.append(buf)
            buf = None
            ins = False
    if buf is not None:
        out.append(buf)
    return out


def parse_mir(text):
    """Returns ({fn name: Function}, {alloc name: AllocInfo})."""
    funcs = {}
    allocs = {}
    lines = join_logical_lines(text.split("\n"))
    i = 0
    n = len(lines)
    cur_fn_allocs = None
    while i < n:
        ln = lines[i]
        m = None
        if ln.startswith("fn ") and ln.endswith("{"):
            hn = _header_name(ln[3:])
            if hn is not None:
                rpos = ln.rfind(") -> ")
                if rpos > 0:
                    m = (hn[0], hn[1], ln[rpos + 5:-1].strip())
        if m:
            fn = Function(m[0].strip())
            # args
            sc = Scanner(m[1])
            while True:
                sc.ws()
                if sc.eof():
                    break
                mm = re.match(r"_(\d+): ", sc.rest())
                if not mm:
                    raise MirSyntaxError("fn arg %r" % sc.rest()[:60])
                sc.i += mm.end()
                ty = sc.balanced_until([","]).strip()
                fn.args.append((int(mm.group(1)), ty))
                fn.locals[int(mm.group(1))] = ty
                sc.eat(",")
            fn.ret = m[2]
            start = i
            i += 1
            cur = None
            while i < n:
                l = lines[i]
                if l == "}":
                    break
                s = l.strip()
                mm = re.match(r"^(bb\d+)( \(cleanup\))?: \{$", s)
                if mm:
                    cur = Block(mm.group(1), bool(mm.group(2)))
                    fn.blocks[cur.name] = cur
                    fn.order.append(cur.name)
                elif cur is not None:
                    if s == "}":
                        cur = None
                    elif s == "" or s.startswith("//"):
                        pass
                    elif is_terminator_line(s):
                        cur.term = parse_terminator(s)
                    else:
                        st = parse_statement(s)
                        if st is not None:
                            cur.stmts.append(st)
                else:
                    mm = re.match(r"^let (mut )?_(\d+): (.*);$", s, re.S)
                    if mm:
                        fn.locals[int(mm.group(2))] = mm.group(3).strip()
                    else:
                        mm = re.match(r"^scope \d+ \(inlined (.*)\) \{$", s)
                        if mm:
                            fn.inlined.append(mm.group(1))
                i += 1
            fn.nlines = i - start + 1
            funcs[fn.name] = fn
            cur_fn_allocs = fn.name
            i += 1
            continue
        m = re.match(r"^(alloc\d+) \((?:static: ([^,]+), )?size: (\d+), align: (\d+)\) \{(.*)$", ln)
        if m:
            name = m.group(1)
            size = int(m.group(3))
            data = []
            relocs = {}
            if m.group(5).strip().endswith("}"):
                i += 1
                allocs[name] = {"size": size, "bytes": [], "relocs": {}, "static": m.group(2)}
                continue
            i += 1
            while i < n and lines[i].strip() != "}":
                row = lines[i]
                # '    0x00 │ 64 61 79 ... │ day' or '    64 61 79     │ day'
                body = row.split("│")
                hexpart = body[1] if len(body) >= 3 else body[0]
                off = len(data)
                toks = hexpart.split()
                k = 0
                while k < len(toks):
                    t = toks[k]
                    if re.fullmatch(r"[0-9a-f]{2}", t):
                        data.append(int(t, 16))
                    elif t == "__":
                        data.append(None)
                    elif t.startswith("╾"):
                        # pointer relocation: ╾─alloc12<imm>─╼  possibly with +0xNN offset
                        mm = re.search(r"(alloc\d+)(?:\+0x([0-9a-f]+))?", t)
                        if not mm:
                            raise MirSyntaxError("reloc %r" % t)
                        relocs[len(data)] = (mm.group(1), int(mm.group(2) or "0", 16))
                        data.extend([None] * 8)
                    elif t in ("░",) or set(t) <= set("░"):
                        pass
                    else:
                        raise MirSyntaxError("alloc token %r in %r" % (t, row))
                    k += 1
                i += 1
            allocs[name] = {"size": size, "bytes": data[:size] if len(data) >= size else data, "relocs": relocs, "static": m.group(2)}
            i += 1
            continue
        i += 1
    return funcs, allocs


if __name__ == "__main__":
    import sys
    fs, al = parse_mir(open(sys.argv[1]).read())
    for name, f in fs.items():
        nst = sum(len(b.stmts) for b in f.blocks.values())
        print(name, "args", f.args, "ret", f.ret, "blocks", len(f.blocks), "stmts", nst)
    print("allocs", {k: v["size"] for k, v in al.items()})


def parse_alloc_block(lines, i):
    """lines[i] is an `allocN (...) {` header; returns (name, info, next index)"""
    ln = lines[i]
    m = re.match(r"^(alloc\d+) \((?:static: ([^,]+), )?size: (\d+), align: (\d+)\) \{(.*)$", ln)
    name = m.group(1)
    size = int(m.group(3))
    data = []
    relocs = {}
    if m.group(5).strip().endswith("}"):
        return name, {"size": size, "bytes": [], "relocs": {}, "static": m.group(2)}, i + 1
    i += 1
    n = len(lines)
    while i < n and lines[i].strip() != "}":
        row = lines[i]
        body = row.split("\u2502")
        hexpart = body[1] if len(body) >= 3 else body[0]
        for t in hexpart.split():
            if re.fullmatch(r"[0-9a-f]{2}", t):
                data.append(int(t, 16))
            elif t == "__":
                data.append(None)
            elif t.startswith("\u257e"):
                mm = re.search(r"(alloc\d+)(?:\+0x([0-9a-f]+))?", t)
                if not mm:
                    raise MirSyntaxError("reloc %r" % t)
                relocs[len(data)] = (mm.group(1), int(mm.group(2) or "0", 16))
                data.extend([None] * 8)
            elif set(t) <= set("\u2591"):
                pass
            else:
                raise MirSyntaxError("alloc token %r in %r" % (t, row))
        i += 1
    return name, {"size": size, "bytes": data[:size] if len(data) >= size else data, "relocs": relocs, "static": m.group(2)}, i + 1


class MirIndex:
    """Lazy index over a (large) MIR dump: functions are located by header and parsed on demand."""

    HDR = re.compile(r"^fn (.*)$", re.M)

    def __init__(self, text, tag):
        self.text = text
        self.tag = tag
        self.by_last = {}
        self.cache = {}
        self.promoted = {}
        for m in re.finditer(r"^const (.*)::promoted\[(\d+)\]: (.*) = \{$", text, re.M):
            owner = m.group(1)
            last = strip_angle(owner).split("::")[-1]
            self.promoted.setdefault((last, int(m.group(2))), []).append((owner, m.start()))
        self.named_consts = {}
        for m in re.finditer(r"^const (.*)::([A-Z][A-Z0-9_]*): (.*) = \{$", text, re.M):
            ty = strip_angle(m.group(3)).split("::")[-1]
            self.named_consts.setdefault((ty, m.group(2)), []).append(m.start())
        for m in self.HDR.finditer(text):
            hdr = m.group(1)
            p = _header_name(hdr)
            if p is None:
                continue
            name, args = p
            last = name.split("::")[-1]
            lst = self.by_last.setdefault(last, [])
            # const fns are printed twice (optimized body, then "MIR FOR CTFE"): keep the first
            if any(x[0] == name and x[1] == args for x in lst):
                continue
            lst.append((name, args, m.start()))

    def candidates(self, last):
        return self.by_last.get(last, [])

    def find_alloc(self, name):
        key = ("alloc", name)
        if key in self.cache:
            return self.cache[key]
        m = re.search(r"^%s \(" % re.escape(name), self.text, re.M)
        if not m:
            self.cache[key] = None
            return None
        end = self.text.find("\n}\n", m.start())
        lines = self.text[m.start():end + 3].split("\n")
        _, info, _ = parse_alloc_block(lines, 0)
        self.cache[key] = info
        return info

    def get_named_const(self, owner, name):
        c = self.named_consts.get((owner, name), [])
        if len(c) != 1:
            return None
        return self.get(c[0])

    def get_promoted(self, fn_last, idx, owner_hint=None):
        c = self.promoted.get((fn_last, idx), [])
        if len(c) > 1 and owner_hint:
            c2 = [x for x in c if owner_hint in x[0]]
            if len(c2) == 1:
                c = c2
        if len(c) != 1:
            return None
        return self.get(c[0][1])

    def get(self, start):
        if start in self.cache:
            return self.cache[start]
        end = self.text.find("\n}\n", start)
        seg = self.text[start:end + 3]
        if seg.startswith("const "):
            hdr, rest = seg.split("\n", 1)
            mm = re.match(r"^const (.*): (.*?) = \{$", hdr)
            seg = "fn %s() -> %s {\n%s" % (mm.group(1), mm.group(2), rest)
        fs, _ = parse_mir(seg)
        fn = list(fs.values())[0] if fs else None
        if fn is not None:
            fn.alloc_ns = self
        self.cache[start] = fn
        return fn


def strip_angle(path):
    out = []
    depth = 0
    for i, c in enumerate(path):
        if c == "<":
            depth += 1
        elif c == ">" and not (i and path[i - 1] in "-="):
            depth -= 1
        elif depth == 0:
            out.append(c)
    s = "".join(out)
    while "::::" in s:
        s = s.replace("::::", "::")
    return s.strip(":")


def _header_name(hdr):
    """'a::<impl at f.rs:1:1: 2:2>::m(_1: T, _2: U) -> R {' -> ('a::<impl..>::m', 'args text')"""
    # find the '(' that opens the argument list: first '(' at angle depth 0
    depth = 0
    i = 0
    n = len(hdr)
    while i < n:
        c = hdr[i]
        if c == "<":
            depth += 1
        elif c == ">" and not (i and hdr[i - 1] in "-="):
            depth -= 1
        elif c == "(" and depth == 0:
            break
        i += 1
    if i >= n:
        return None
    name = hdr[:i].strip()
    j = hdr.rfind(") -> ")
    args = hdr[i + 1:j] if j > i else ""
    return name, args
