"""SMT query construction (cone-of-influence slicing), solver portfolio, model parsing."""
import os
import re
import subprocess
import tempfile
import time

import z3

Z3_BIN = os.environ.get("VERIF_Z3", "z3-new")
CVC5_BIN = os.environ.get("VERIF_CVC5", "cvc5")


def consts_of(expr, cache=None):
    """ids -> const expr for all uninterpreted constants in expr"""
    out = {}
    seen = set()
    stack = [expr]
    while stack:
        e = stack.pop()
        i = e.get_id()
        if i in seen:
            continue
        seen.add(i)
        if z3.is_const(e):
            if e.decl().kind() == z3.Z3_OP_UNINTERPRETED:
                out[i] = e
            continue
        stack.extend(e.children())
    return out


class Sliced:
    """Pre-indexed definitions for repeated slicing."""

    def __init__(self, defs):
        self.defs = defs
        self.by_var = {}
        self.deps = []
        for k, (defined, c) in enumerate(defs):
            for d in defined:
                self.by_var.setdefault(d, []).append(k)
            self.deps.append(None)

    def slice(self, goals):
        need = {}
        for g in goals:
            need.update(consts_of(g))
        todo = list(need)
        inc = set()
        allc = dict(need)
        while todo:
            v = todo.pop()
            for k in self.by_var.get(v, ()):
                if k in inc:
                    continue
                inc.add(k)
                if self.deps[k] is None:
                    self.deps[k] = consts_of(self.defs[k][1])
                for i, e in self.deps[k].items():
                    if i not in allc:
                        allc[i] = e
                        todo.append(i)
        return [self.defs[k][1] for k in sorted(inc)], allc


def smt2_text(constraints, consts, goal, get_values=()):
    lines = ["(set-option :produce-models true)", "(set-logic ALL)"]
    for i in sorted(consts, key=lambda i: str(consts[i])):
        e = consts[i]
        lines.append("(declare-fun %s () %s)" % (e.sexpr(), e.sort().sexpr()))
    for c in constraints:
        lines.append("(assert %s)" % c.sexpr())
    lines.append("(assert %s)" % goal.sexpr())
    lines.append("(check-sat)")
    if get_values:
        lines.append("(get-value (%s))" % " ".join(v.sexpr() for v in get_values))
    return "\n".join(lines) + "\n"


def parse_get_value(txt):
    """parse '((a 5) (b (- 3)) (c true))' -> {name: int|bool}"""
    out = {}
    for m in re.finditer(r"\(([A-Za-z_][A-Za-z_0-9]*)\s+(\(-\s*\d+\)|-?\d+|true|false)\)", txt):
        v = m.group(2)
        if v == "true":
            out[m.group(1)] = True
        elif v == "false":
            out[m.group(1)] = False
        else:
            out[m.group(1)] = int(re.sub(r"[()\s]", "", v))
    return out


def _launch(cmd, path):
    return subprocess.Popen(cmd + [path], stdout=subprocess.PIPE, stderr=subprocess.STDOUT, text=True)


def solver_cmds(timeout_s, which=("z3", "cvc5")):
    cmds = {}
    if "z3" in which:
        cmds["z3"] = [Z3_BIN, "-T:%d" % max(1, int(timeout_s))]
    if "cvc5" in which:
        cmds["cvc5"] = [CVC5_BIN, "--lang", "smt2", "--tlimit=%d" % int(timeout_s * 1000)]
    if "cvc5-int" in which:
        cmds["cvc5-int"] = [CVC5_BIN, "--lang", "smt2", "--tlimit=%d" % int(timeout_s * 1000), "--nl-ext-tplanes"]
    return cmds


def classify(out):
    if "(error" in out:
        # z3 prints (error ...) for get-value after unsat; that is benign if the first line is unsat
        first = out.strip().split("\n", 1)[0].strip()
        if first == "unsat" and out.count("(error") == 1 and "model is not available" in out:
            return "unsat"
        if first == "unsat" and out.count("(error") == 1 and ("cannot get value" in out.lower() or "get-value" in out.lower() or "unsat" in out.lower()):
            return "unsat"
        return "error"
    first = out.strip().split("\n", 1)[0].strip() if out.strip() else ""
    if first in ("sat", "unsat"):
        return first
    if first in ("unknown", "timeout") or "timeout" in out or "interrupted" in out:
        return "unknown"
    return "error" if first else "unknown"


def run_portfolio(text, timeout_s, which=("z3", "cvc5"), crosscheck=True, workdir=None, tag="q"):
    """Run the solvers concurrently on the same query.
    Returns dict(result, solver, secs, model, detail, agree) where result in
    sat/unsat/unknown/error/disagree."""
    fd, path = tempfile.mkstemp(prefix=tag + "_", suffix=".smt2", dir=workdir)
    os.write(fd, text.encode())
    os.close(fd)
    t0 = time.time()
    procs = {n: _launch(c, path) for n, c in solver_cmds(timeout_s, which).items()}
    results = {}
    first = None
    deadline = t0 + timeout_s + 5
    extra_deadline = None
    try:
        while procs:
            done = [n for n, p in procs.items() if p.poll() is not None]
            for n in done:
                out = procs.pop(n).stdout.read()
                r = classify(out)
                results[n] = (r, time.time() - t0, out)
                if r in ("sat", "unsat") and first is None:
                    first = n
                    if crosscheck:
                        t = time.time() - t0
                        extra_deadline = time.time() + min(max(2 * t, 2.0), 20.0)
                    else:
                        extra_deadline = time.time()
            now = time.time()
            if first is not None and now >= extra_deadline:
                break
            if now > deadline:
                break
            if not done:
                time.sleep(0.01)
    finally:
        for p in procs.values():
            try:
                p.kill()
                p.wait()
            except Exception:
                pass
        try:
            os.unlink(path)
        except OSError:
            pass
    secs = time.time() - t0
    definite = {n: r for n, (r, _, _) in results.items() if r in ("sat", "unsat")}
    detail = {n: {"result": r, "secs": round(t, 3)} for n, (r, t, _) in results.items()}
    if len(set(definite.values())) > 1:
        return {"result": "disagree", "solver": None, "secs": secs, "model": None, "detail": detail}
    if first is None:
        errs = [n for n, (r, _, _) in results.items() if r == "error"]
        res = "error" if errs and len(errs) == len(results) and results else "unknown"
        return {"result": res, "solver": None, "secs": secs, "model": None, "detail": detail,
                "errtext": "; ".join(results[n][2][:300] for n in errs)}
    r, t, out = results[first]
    model = parse_get_value(out.split("\n", 1)[1]) if r == "sat" and "\n" in out else None
    return {"result": r, "solver": first, "secs": round(t, 3), "model": model, "detail": detail,
            "agree": sorted(definite)}
