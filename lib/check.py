"""Top-level check: runs the engines registered for a property, writes evidence, sets the exit code."""
import argparse, importlib.util, json, os, sys, time
HERE = os.path.dirname(os.path.abspath(__file__))
sys.path.insert(0, HERE)
import report

VERIF = os.path.dirname(HERE)

TRUSTED_M = [
    "rustc nightly (pinned in the image) front end + MIR inliner: the encoded MIR is what rustc produced for the wrapper with jiff's real code inlined",
    "the MIR->SMT translator in /verif/lib (mirparse.py, mirenc.py), guarded on every run by replaying >=200 concrete vectors per kernel against the natively compiled kernel (stable toolchain)",
    "hand-written semantics of the allow-listed residual calls (integer intrinsics, opaque jiff::Error constructors)",
    "z3 5.1 and cvc5 1.0.3 (portfolio; cross-checked in the thorough tier)",
    "the reference models in /verif/lib/speclib.py and /verif/engine_m/specs/*.py",
]
TRUSTED_K = [
    "Kani 0.68 / CBMC 6.11 (CaDiCaL) and Kani's model of the Rust standard library",
    "the harness-side reference models in /verif/engine_k/*.rs",
]


def load(path, name):
    spec = importlib.util.spec_from_file_location(name, path)
    m = importlib.util.module_from_spec(spec)
    spec.loader.exec_module(m)
    return m


def main():
    ap = argparse.ArgumentParser()
    ap.add_argument("pid")
    ap.add_argument("--tier", default=os.environ.get("VERIF_TIER", "quick"))
    ap.add_argument("--only")
    ap.add_argument("--keep", action="store_true")
    ap.add_argument("--timeout", type=int)
    ap.add_argument("--engine", choices=["M", "K"])
    ap.add_argument("--replay")
    ap.add_argument("--dump")
    a = ap.parse_args()
    if a.replay:
        print(open(a.replay).read())
        print("To re-run: ./check %s --tier %s  (the counterexample inputs above are replayed natively by the check itself)" % (a.pid, a.tier))
        return 0
    seed = int(os.environ.get("VERIF_SEED", "0"))
    t0 = time.time()
    parts = []
    trusted = []
    assumptions = []
    level = []
    mspec = os.path.join(VERIF, "engine_m", "specs", a.pid + ".py")
    kspec = os.path.join(VERIF, "engine_k", "specs", a.pid + ".py")
    if os.path.exists(mspec) and a.engine in (None, "M"):
        import mdriver
        m = load(mspec, "mspec_" + a.pid)
        to = a.timeout or (120 if a.tier == "quick" else 1200)
        R = mdriver.run_property(a.pid, m.KERNELS, m.MODULES, a.tier, seed, to, scratch_keep=a.keep, only=a.only)
        parts.append(R)
        trusted += TRUSTED_M
        assumptions += getattr(m, "ASSUMPTIONS", [])
        level.append("engine M: bounded SMT proof over the rustc MIR of kernel wrappers that inline the real jiff code; every obligation is `unsat` for all inputs inside the stated precondition (integer encoding with explicit mod-2^k wrapping)")
    if os.path.exists(kspec) and a.engine in (None, "K"):
        import kdriver
        k = load(kspec, "kspec_" + a.pid)
        R = kdriver.run_property(a.pid, k, a.tier, seed, a.timeout, keep=a.keep, only=a.only)
        parts.append(R)
        trusted += TRUSTED_K
        assumptions += getattr(k, "ASSUMPTIONS", [])
        level.append("engine K: Kani/CBMC bounded model checking of in-crate harnesses with symbolic inputs, unwinding assertions on")
    if not parts:
        print("no engine registered for %s" % a.pid)
        return 2
    if a.dump:
        json.dump(parts, open(a.dump, "w"), indent=1, default=str)
    cmd = "./check %s --tier %s" % (a.pid, a.tier)
    return report.finish(a.pid, a.tier, seed, parts, time.time() - t0, "; ".join(level), trusted, cmd, assumptions)


if __name__ == "__main__":
    sys.exit(main())
