"""Engine K driver: Kani codegen on a scratch copy, CBMC per harness in parallel, trace -> native replay."""
import glob
import json
import os
import re
import shutil
import subprocess
import sys
import time
from concurrent.futures import ThreadPoolExecutor

HERE = os.path.dirname(os.path.abspath(__file__))
VERIF = os.path.dirname(HERE)
REPO = os.environ.get("VERIF_REPO", "/repo")
KANI_LIB_C = os.path.expanduser("~/.kani/kani-0.68.0/library/kani/kani_lib.c")

CBMC_FLAGS = ["--no-malloc-may-fail", "--no-undefined-shift-check", "--no-signed-overflow-check", "--nan-check",
              "--no-self-loops-to-assumptions", "--no-pointer-primitive-check", "--object-bits", "16",
              "--slice-formula", "--sat-solver", "cadical", "--unwinding-assertions"]


def log(*a):
    print(*a, file=sys.stderr, flush=True)


class H:
    """Harness descriptor. expect: 'pass' (all properties SUCCESS) or 'witness' (the final
    assert(false) must FAIL: vacuity guard)."""

    def __init__(self, name, unwind, tier="quick", expect="pass", timeout=600, mem_gb=12, note="", stubs=()):
        self.name = name
        self.unwind = unwind
        self.tier = tier
        self.expect = expect
        self.timeout = timeout
        self.mem_gb = mem_gb
        self.note = note
        self.stubs = stubs


def sh(cmd, cwd=None, env=None, timeout=None, check=True):
    e = dict(os.environ)
    e["CARGO_NET_OFFLINE"] = "true"
    if env:
        e.update(env)
    p = subprocess.run(cmd, cwd=cwd, env=e, stdout=subprocess.PIPE, stderr=subprocess.PIPE, text=True, timeout=timeout)
    if check and p.returncode != 0:
        raise RuntimeError("command failed: %s\n%s\n%s" % (" ".join(cmd), p.stdout[-3000:], p.stderr[-8000:]))
    return p


class KScratch:
    def __init__(self, keep=False):
        base = os.environ.get("VERIF_TMP", os.environ.get("TMPDIR", "/tmp"))
        self.dir = os.path.join(base, "verif-k-%d-%d" % (os.getpid(), int(time.time() * 1000) % 100000))
        self.keep = keep
        self.times = {}

    def __enter__(self):
        os.makedirs(self.dir)
        return self

    def __exit__(self, *a):
        if not self.keep:
            shutil.rmtree(self.dir, ignore_errors=True)

    def prepare(self):
        t0 = time.time()
        self.jiff = os.path.join(self.dir, "jiff")
        sh(["rsync", "-a", "--exclude", "/target", "--exclude", ".git", REPO + "/", self.jiff + "/"])
        vk = os.path.join(self.jiff, "src", "verif_k")
        os.makedirs(vk)
        for f in glob.glob(os.path.join(VERIF, "engine_k", "*.rs")):
            shutil.copy(f, vk)
        with open(os.path.join(self.jiff, "src", "lib.rs"), "a") as f:
            f.write("\n#[cfg(any(kani, verif_replay))]\nmod verif_k;\n")
        self.times["copy"] = round(time.time() - t0, 2)

    def codegen(self, harnesses):
        t0 = time.time()
        cmd = ["cargo", "kani", "--no-default-features", "--features", "alloc", "-Z", "stubbing", "--only-codegen",
               "--keep-temps", "--no-assertion-reach-checks", "--target-dir", os.path.join(self.dir, "target-kani")]
        for h in harnesses:
            cmd += ["--harness", h.name]
        p = sh(cmd, cwd=self.jiff, timeout=3600)
        self.times["kani_codegen"] = round(time.time() - t0, 2)
        self.codegen_log = (p.stdout + p.stderr)[-4000:]

    def symtab(self, name):
        cands = glob.glob(os.path.join(self.dir, "target-kani", "**", "*%s*.symtab.out" % name), recursive=True)
        # exact harness: the mangled name ends with the harness name followed by the hash suffix
        best = []
        for c in cands:
            b = os.path.basename(c)
            if re.search(r"%s(17h[0-9a-f]{16}E)?\.symtab\.out$" % re.escape(name), b) or re.search(r"\d+%s17h" % re.escape(name), b):
                best.append(c)
        if not best:
            best = cands
        if not best:
            return None
        best.sort(key=lambda p: os.path.getmtime(p), reverse=True)
        return best[0]


def run_harness(sc, h, want_trace=False):
    """Returns dict(status: success|failure|timeout|oom|error, failed: [property descriptions], secs, trace?)"""
    t0 = time.time()
    sym = sc.symtab(h.name)
    res = {"harness": h.name, "unwind": h.unwind, "status": "error", "failed": [], "secs": 0}
    if sym is None:
        res["detail"] = "no goto binary for harness (codegen did not produce it)"
        return res
    fn = re.sub(r"^[A-Za-z0-9_]+-[0-9a-f]+_", "", os.path.basename(sym)[:-len(".symtab.out")])
    # the entry function name is the mangled symbol: take it from the file name after the crate-hash prefix
    out = os.path.join(sc.dir, "goto-%s.out" % h.name)
    try:
        sh(["goto-cc", sym, KANI_LIB_C, "-o", out])
        sh(["goto-cc", out, "--function", fn, "-o", out])
        sh(["goto-instrument", "--add-library", "--no-malloc-may-fail", out, out])
        sh(["goto-instrument", "--generate-function-body-options", "assert-false-assume-false",
            "--generate-function-body", ".*", "--drop-unused-functions", out, out])
        sh(["goto-instrument", "--ensure-one-backedge-per-target", out, out])
    except RuntimeError as e:
        res["detail"] = str(e)[-1500:]
        return res
    res["prep_s"] = round(time.time() - t0, 2)
    flags = [f for f in CBMC_FLAGS if not (want_trace and f == "--slice-formula")]
    cmd = ["cbmc"] + flags + ["--unwind", str(h.unwind)]
    if want_trace:
        cmd.append("--trace")
    cmd.append(out)
    limit_kb = h.mem_gb * 1024 * 1024
    shell = "ulimit -v %d; exec timeout %d %s" % (limit_kb, h.timeout, " ".join("'%s'" % c for c in cmd))
    t1 = time.time()
    p = subprocess.run(["bash", "-c", shell], stdout=subprocess.PIPE, stderr=subprocess.STDOUT, text=True)
    res["secs"] = round(time.time() - t1, 2)
    txt = p.stdout
    res["cbmc_properties"] = len(re.findall(r"^\[[^\]]+\] .*: (SUCCESS|FAILURE)$", txt, re.M))
    m = re.search(r"(\d+) variables, (\d+) clauses", txt)
    if m:
        res["sat_vars"], res["sat_clauses"] = int(m.group(1)), int(m.group(2))
    if p.returncode == 124:
        res["status"] = "timeout"
    elif "VERIFICATION SUCCESSFUL" in txt:
        res["status"] = "success"
    elif "VERIFICATION FAILED" in txt:
        res["status"] = "failure"
        res["failed"] = re.findall(r"^\[[^\]]+\] (.*): FAILURE$", txt, re.M)[:20]
        if want_trace:
            res["inputs"] = extract_inputs(txt)
            res["trace_tail"] = txt[-1500:]
    elif "std::bad_alloc" in txt or "Out of memory" in txt or p.returncode in (134, 137, -9, -6):
        res["status"] = "oom"
        res["detail"] = txt[-500:]
    else:
        res["status"] = "error"
        res["detail"] = txt[-1500:]
    try:
        os.unlink(out)
    except OSError:
        pass
    return res


def extract_inputs(trace):
    """The harness draws every input through exactly one kani::any() (Src::i128), so the
    return values of kani::any_raw_internal in the trace, in order, are the inputs."""
    vals = []
    for m in re.finditer(r"goto_symex\$\$return_value\$\$\S*any_raw_internal\S*=(-?\d+)", trace):
        vals.append(int(m.group(1)))
    return vals


def native_replay(sc, name, inputs):
    """Compile the same harness body natively (cfg(verif_replay)) and run it on the inputs."""
    env = {"RUSTFLAGS": "--cfg verif_replay", "VERIF_K_REPLAY": "%s:%s" % (name, ",".join(str(v) for v in inputs))}
    out = {}
    for prof, extra in (("dev", []), ("release", ["--release"])):
        p = sh(["cargo", "test", "--offline", "--no-default-features", "--features", "alloc", "--lib",
                "--target-dir", os.path.join(sc.dir, "target-replay")] + extra +
               ["verif_k::replay::verif_k_replay", "--", "--nocapture", "--exact"], cwd=sc.jiff, env=env, check=False, timeout=3600)
        m = re.search(r"VERIF_K_RESULT (.*)", p.stdout + p.stderr)
        out[prof] = m.group(1) if m else "NO-RESULT: " + (p.stdout + p.stderr)[-600:]
    return out


def run_property(pid, spec, tier, seed, timeout=None, keep=False, only=None):
    t0 = time.time()
    rank = {"quick": 0, "thorough": 1, "deep": 2}
    hs = [h for h in spec.HARNESSES if rank.get(h.tier, 2) <= rank.get(tier, 0)]
    if only:
        hs = [h for h in hs if re.search(only, h.name)]
    R = {"property": pid, "tier": tier, "seed": seed, "engine": "K", "kernels": [], "violations": [], "inconclusive": [],
         "refused": [], "build": {}}
    with KScratch(keep=keep) as sc:
        sc.prepare()
        try:
            sc.codegen(hs)
        except RuntimeError as e:
            R["inconclusive"].append({"harness": "*", "why": "kani codegen failed: " + str(e)[-2500:]})
            R["build"] = sc.times
            R["wall_s"] = round(time.time() - t0, 2)
            return R
        R["build"] = dict(sc.times)
        par = int(os.environ.get("VERIF_K_PAR", "12"))
        with ThreadPoolExecutor(max_workers=par) as ex:
            results = list(ex.map(lambda h: run_harness(sc, h), hs))
        for h, r in zip(hs, results):
            unit = {"harness": h.name, "status": r["status"], "variant": "kani",
                    "stats": {"unwind": h.unwind, "cbmc_properties": r.get("cbmc_properties"), "secs": r["secs"],
                              "vcc": r.get("sat_clauses")},
                    "notes": [h.note] if h.note else [], "obligations": []}
            ob = {"kind": "property", "label": "%s (unwind %d, all CBMC properties incl. unwinding assertions)" % (h.name, h.unwind),
                  "expect": "unsat" if h.expect == "pass" else "sat", "secs": r["secs"], "solver": "cbmc/cadical"}
            if h.expect == "witness":
                ob["kind"] = "witness"
                if r["status"] == "failure" and any("assertion failed: false" in f for f in r["failed"]) and not any("unwinding" in f for f in r["failed"]):
                    ob["result"] = "sat"
                else:
                    ob["result"] = r["status"]
                    R["inconclusive"].append({"harness": h.name, "why": "vacuity witness did not fail as required: %s %s" % (r["status"], r.get("failed"))})
            else:
                if r["status"] == "success":
                    ob["result"] = "unsat"
                elif r["status"] == "failure":
                    ob["result"] = "sat"
                    if any("unwinding assertion" in f for f in r["failed"]):
                        R["inconclusive"].append({"harness": h.name, "why": "unwinding assertion failed: bound too small", "failed": r["failed"]})
                    else:
                        # obtain the counterexample and replay it natively
                        rt = run_harness(sc, h, want_trace=True)
                        inputs = rt.get("inputs") or []
                        base = h.name
                        rp = native_replay(sc, base, inputs) if inputs else {}
                        ob["replay"] = {"inputs": inputs, "native": rp, "failed_checks": r["failed"]}
                        confirmed = any(("failed=[\"" in v or v.startswith("panic")) and "assume_failed=false" in v for v in rp.values())
                        if confirmed:
                            R["violations"].append({"harness": h.name, "query": "; ".join(r["failed"])[:300], "kind": "property",
                                                    "replay": {"inputs": inputs, "native": rp}})
                        else:
                            R["inconclusive"].append({"harness": h.name, "why": "CBMC counterexample does not reproduce natively",
                                                      "failed": r["failed"], "replay": {"inputs": inputs, "native": rp}})
                else:
                    ob["result"] = r["status"]
                    R["inconclusive"].append({"harness": h.name, "why": "cbmc %s" % r["status"], "detail": r.get("detail", "")[-800:]})
            unit["obligations"].append(ob)
            R["kernels"].append(unit)
    R["wall_s"] = round(time.time() - t0, 2)
    return R
