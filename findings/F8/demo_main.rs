use jiff::{SignedDuration, Unit};
fn main() {
    // rounding to the nearest nanosecond is the identity and the value is in range
    let d = SignedDuration::new(i64::MIN, -1);
    let r = d.round(Unit::Nanosecond);
    println!("{r:?}");
    assert_eq!(r.ok(), Some(d));
    // ordinary negative fractional values are unaffected
    let e = SignedDuration::new(-1, -500_400_000);
    assert_eq!(e.round(Unit::Millisecond).unwrap(), SignedDuration::new(-1, -500_000_000));
    assert_eq!(SignedDuration::new(0, -1_004).round(Unit::Microsecond).unwrap(), SignedDuration::new(0, -1_000));
}
