use jiff::SignedDuration;
fn main() {
    // (-5s) - MIN = 2^63 - 5s + 0.999999999s: representable
    let a = SignedDuration::new(-5, 0);
    let want = SignedDuration::new(i64::MAX - 4, 999_999_999);
    let got = a.checked_sub(SignedDuration::MIN);
    let sat = a.saturating_sub(SignedDuration::MIN);
    println!("checked_sub = {got:?}; saturating_sub = {sat:?}; exact = {want:?}");
    assert_eq!(got, Some(want));
    assert_eq!(sat, want);
    // -0.5s - (i64::MIN s) = 2^63 s - 0.5 s: representable
    let b = SignedDuration::new(0, -500_000_000);
    let got = b.checked_sub(SignedDuration::new(i64::MIN, 0));
    assert_eq!(got, Some(SignedDuration::new(i64::MAX, 500_000_000)));
    // still an overflow when it really is one
    assert_eq!(SignedDuration::ZERO.checked_sub(SignedDuration::MIN), None);
}
