use jiff::{Span, SpanRelativeTo, SpanRound, ToSpan, Unit};
fn main() {
    let opts = |inc| SpanRound::new().smallest(Unit::Day).largest(Unit::Day).increment(inc).relative(SpanRelativeTo::days_are_24_hours());
    // must be errors: previously increment 0 panicked (division by zero) and -25 returned Ok(-25 days) for a span of 1 day
    assert!(1.day().round(opts(0)).is_err());
    assert!(1.day().round(opts(-25)).is_err());
    let r: Span = 3.days().round(opts(2)).unwrap();
    assert_eq!(r.get_days(), 4);
}
