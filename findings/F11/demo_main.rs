use jiff::{SignedDuration, SignedDurationRound, Unit};
fn main() {
    let opts = |inc| SignedDurationRound::new().smallest(Unit::Second).increment(inc);
    // must be errors: previously increment 0 panicked (division by zero) and -3 returned Ok
    assert!(SignedDuration::from_secs(5).round(opts(0)).is_err());
    assert!(SignedDuration::from_secs(5).round(opts(-3)).is_err());
    assert_eq!(SignedDuration::from_secs(5).round(opts(2)).unwrap(), SignedDuration::from_secs(6));
}
