use jiff::{civil::date, tz::Offset, Timestamp};
fn main() {
    // -9999-01-01T00:00:00.000000001 at -25:59:58 is 0.999999999s *before* Timestamp::MIN
    let off = Offset::from_seconds(-93598).unwrap();
    let dt = date(-9999, 1, 1).at(0, 0, 0, 1);
    let r = off.to_timestamp(dt);
    match &r {
        Ok(ts) => println!("Ok: second={} subsec={} as_nanosecond={} < MIN: {}", ts.as_second(), ts.subsec_nanosecond(), ts.as_nanosecond(), *ts < Timestamp::MIN),
        Err(e) => println!("Err: {e}"),
    }
    assert!(r.is_err(), "an instant before Timestamp::MIN must be an error, not an out-of-range Timestamp");
}
