use jiff::{civil::date, tz::Offset, Timestamp};
fn main() {
    let off = Offset::from_seconds(-2 * 3600).unwrap();
    let dt = date(1969, 12, 31).at(23, 0, 0, 500_000_000);
    let ts = off.to_timestamp(dt).unwrap();
    let want = Timestamp::new(3600, 500_000_000).unwrap();
    println!("got  as_second={} subsec={} as_nanosecond={}", ts.as_second(), ts.subsec_nanosecond(), ts.as_nanosecond());
    println!("want as_second={} subsec={} as_nanosecond={}", want.as_second(), want.subsec_nanosecond(), want.as_nanosecond());
    println!("eq: {}  cmp: {:?}  display: {} vs {}", ts == want, ts.cmp(&want), ts, want);
    let back = off.to_datetime(want);
    println!("back: {back}");
    assert_eq!(ts, want);
}
