use jiff::{RoundMode, Timestamp, TimestampRound, Unit};
fn main() {
    let r = Timestamp::MAX.round(TimestampRound::new().smallest(Unit::Second).mode(RoundMode::Ceil));
    match &r {
        Ok(ts) => println!("Ok({}s {}ns) > MAX: {}", ts.as_second(), ts.subsec_nanosecond(), *ts > Timestamp::MAX),
        Err(e) => println!("Err({e})"),
    }
    assert!(r.is_err(), "rounding Timestamp::MAX up must be an error, not a value above Timestamp::MAX");
    // in-range rounding still works at the edge
    let f = Timestamp::MAX.round(TimestampRound::new().smallest(Unit::Second).mode(RoundMode::Floor)).unwrap();
    assert_eq!(f.as_second(), 253402207200);
}
