use jiff::tz::TimeZone;
fn main() {
    // the empty string is not a valid POSIX time zone: this must be an error, not a panic
    let r = TimeZone::posix("");
    println!("{:?}", r.as_ref().map(|_| ()).map_err(|e| e.to_string()));
    assert!(r.is_err());
    assert!(TimeZone::posix("EST5EDT,M3.2.0,M11.1.0").is_ok());
}
