use jiff::{civil::Time, Span, ToSpan};
fn main() {
    let t0 = Time::midnight();
    // 2_562_048 hours = 106_752 days exactly
    let a = t0.wrapping_add(Span::new().hours(2_562_048));
    // the documented maximum number of hours (175_307_616 = 7_304_484 days)
    let b = t0.wrapping_add(175_307_616.hours());
    let c = t0.wrapping_sub(Span::new().minutes(10_518_456_960i64));
    println!("{a} {b} {c}");
    assert_eq!(a, t0);
    assert_eq!(b, t0);
    assert_eq!(c, t0);
}
