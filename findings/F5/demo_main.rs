use jiff::{tz::TimeZone, Timestamp};

/// A version-1 TZif file (no POSIX TZ footer): two transitions, two local time types.
fn tzif_v1() -> Vec<u8> {
    let mut b = Vec::new();
    b.extend_from_slice(b"TZif");
    b.push(0); // version 1
    b.extend_from_slice(&[0u8; 15]);
    for n in [0u32, 0, 0, 2, 2, 8] { // isutcnt isstdcnt leapcnt timecnt typecnt charcnt
        b.extend_from_slice(&n.to_be_bytes());
    }
    for t in [1_000_000_000i32, 1_100_000_000] { b.extend_from_slice(&t.to_be_bytes()); }
    b.extend_from_slice(&[1, 0]); // type indices
    b.extend_from_slice(&(-18000i32).to_be_bytes()); b.push(0); b.push(0); // EST
    b.extend_from_slice(&(-14400i32).to_be_bytes()); b.push(1); b.push(4); // EDT
    b.extend_from_slice(b"EST\0EDT\0");
    b
}

fn main() {
    let tz = TimeZone::tzif("Test/V1", &tzif_v1()).unwrap();
    let last = Timestamp::new(1_100_000_000, 0).unwrap();
    let after = Timestamp::new(1_200_000_000, 0).unwrap();
    let mut bad = 0;
    for start in [last, after] {
        let got: Vec<_> = tz.following(start).take(3).map(|t| t.timestamp()).collect();
        println!("following({start}) -> {got:?}");
        if got.iter().any(|t| *t <= start) { bad += 1; }
    }
    assert_eq!(bad, 0, "following() yielded a transition that is not strictly after the start");
}
