use jiff::{tz::TimeZone, Timestamp};
fn main() {
    let tz = TimeZone::get("America/New_York").unwrap();
    // transition at 1967-04-30T07:00:00Z (-84387600): EST -> EDT
    let before = Timestamp::new(-84387600, -500_000_000).unwrap(); // 06:59:59.5Z
    println!("{} -> {:?}", before, tz.to_offset(before));
    println!("{}", before.to_zoned(tz.clone()));
    let t = Timestamp::new(-84387601, 0).unwrap();
    println!("next after T-1s: {:?}", tz.following(t).next().map(|x| x.timestamp()));
    println!("next after T-0.5s: {:?}", tz.following(before).next().map(|x| x.timestamp()));
    println!("prev before T-0.5s: {:?}", tz.preceding(before).next().map(|x| x.timestamp()));
    assert_eq!(tz.to_offset(before).seconds(), -5 * 3600);
}
