#!/bin/bash
# usage: confirm_seed.sh <seed-src-dir (contains patch.diff, demo/)> <id> 
# Confirms in a scratch worktree: patch applies; test suite passes with it; demo fails with it; demo passes without it.
set -u
SRC=$1; ID=$2
WT=/tmp/confirm-wt
export CARGO_NET_OFFLINE=true
if [ ! -d $WT ]; then git -C /repo worktree add --detach $WT HEAD -q; fi
cd $WT && git checkout -q --detach $(git -C /repo rev-parse HEAD) && git checkout -- . && git clean -fdq -e target
export CARGO_TARGET_DIR=$WT/target
OUT=/tmp/confirm-$ID.log; : > $OUT
if ! git apply --check $SRC/patch.diff 2>>$OUT; then echo "$ID APPLY-FAIL" | tee -a $OUT; exit 1; fi
git apply $SRC/patch.diff
T=$(cargo test --workspace --no-fail-fast --offline 2>&1 | grep -E "^test result" | awk '{p+=$4; f+=$6} END {print p" passed "f" failed"}')
echo "$ID suite-with-mutation: $T" | tee -a $OUT
rm -rf /tmp/confirm-demo && cp -r $SRC/demo /tmp/confirm-demo && sed -i "s#path = \"[^\"]*\"#path = \"$WT\"#" /tmp/confirm-demo/Cargo.toml
(cd /tmp/confirm-demo && CARGO_TARGET_DIR=$WT/target/demo cargo run --offline -q >>$OUT 2>&1); A=$?
echo "$ID demo-with-mutation exit=$A" | tee -a $OUT
git checkout -- . 
(cd /tmp/confirm-demo && CARGO_TARGET_DIR=$WT/target/demo cargo run --offline -q >>$OUT 2>&1); B=$?
echo "$ID demo-without-mutation exit=$B" | tee -a $OUT
if [ $A -ne 0 ] && [ $B -eq 0 ]; then echo "$ID CONFIRMED" | tee -a $OUT; else echo "$ID NOT-CONFIRMED" | tee -a $OUT; fi
