#!/usr/bin/env python3
"""Apply each seeded change to /repo, run the named checks, restore /repo, record what was detected.
usage: seed_matrix.py [seed-id ...]   (default: all).  Never run concurrently with other checks."""
import json, os, subprocess, sys, time
V = "/verif"
PLAN = {   # seed -> [(property, extra args)]
    "C06-m1": [("C06", ["--only", "k_span_split|k_zoned_fixed_add_time"])],
    "C06-m2": [("C06", [])],
    "C11-m1": [("C11", ["--only", "k_span_balance_24h"])],
    "C11-m2": [("C11", ["--only", "k_span_round_24h$|k_span_round_24h_day"])],
    "C13-m1": [("C13", [])],
    "C13-m2": [("C13", []), ("C02", ["--only", "k_idt_to_ts"])],
    "C01-m1": [("C01", ["--only", "nth_weekday_of_month"])],
    "C01-m2": [("C01", ["--only", "k_iso_"])],
    "C02-m1": [("C02", ["--only", "k_off_to_datetime"])],
    "C02-m2": [("C02", ["--only", "k_ts_from_millisecond"])],
    "C03-m1": [("C03", ["--engine", "M", "--only", "k_posix_us"])],
    "C03-m2": [("C01", ["--only", "k_ifrom_doy_no_leap"])],
    "C08-m1": [("C08", ["--only", "k_time_checked_add_sdur"])],
    "C08-m2": [("C01", ["--only", "k_date_tomorrow"]), ("C08", ["--only", "k_date_add_wd"])],
    "C10-m1": [("C10", ["--only", "k_ts_round|k_sd_round"])],
    "C10-m2": [("C10", ["--only", "k_sd_round"])],
    "C12-m1": [("C12", ["--only", "k_span_checked_mul"])],
    "C12-m2": [("C12", ["--only", "k_sd_new"])],
    "C14-m1": [("C14", ["--engine", "K"])],
    "C14-m2": [("C14", ["--engine", "M", "--only", "k_posix_us_prev"])],
    "C17-m1": [("C17", [])],
    "C17-m2": [("C17", ["--only", "i64"])],
    "C05-m1": [("C05", ["--only", "nth_weekday_of_month"])],
    "C05-m2": [("C05", ["--only", "k_ifrom_doy_no_leap"])],
    "C04-m1": [("C04", ["--only", "k_posix_mid_ambiguous"])],
    "C04-m2": [("C04", ["--only", "k_posix_neg_ambiguous"])],
    "C07-m1": [("C07", ["--only", "k_date_until"])],
    "C07-m2": [("C07", ["--only", "k_ts_until"])],
    "C20-m1": [("C20", ["--only", "k_tz_fixed$"])],
    "C20-m2": [("C20", ["--only", "k_tz_fixed_eq"])],
}
seeds = sys.argv[1:] or sorted(PLAN)
rows = []
for sid in seeds:
    d = os.path.join(V, "seeded", sid)
    assert subprocess.run(["git", "-C", "/repo", "status", "--porcelain"], capture_output=True, text=True).stdout.strip() == "", "/repo not clean"
    r = subprocess.run(["git", "-C", "/repo", "apply", os.path.join(d, "patch.diff")], capture_output=True, text=True)
    if r.returncode != 0:
        rows.append((sid, "patch does not apply: " + r.stderr.strip()[:200], []))
        continue
    res = []
    # the checks rewrite evidence/<id>.json; runs against a patched tree must not leave their evidence behind
    saved = {pid: (open(os.path.join(V, "evidence", pid + ".json")).read() if os.path.exists(os.path.join(V, "evidence", pid + ".json")) else None)
             for pid, _ in PLAN[sid]}
    try:
        for pid, extra in PLAN[sid]:
            t0 = time.time()
            p = subprocess.run([os.path.join(V, "check"), pid] + extra, cwd=V, capture_output=True, text=True)
            viol = [l for l in p.stdout.split("\n") if l.startswith("VIOLATION")]
            res.append({"check": "./check %s %s" % (pid, " ".join(extra)), "exit": p.returncode, "violation_lines": viol,
                        "summary": p.stdout.strip().split("\n")[-1][:300], "secs": round(time.time() - t0, 1)})
    finally:
        subprocess.run(["git", "-C", "/repo", "checkout", "--", "."])
        for pid, txt in saved.items():
            if txt is not None:
                open(os.path.join(V, "evidence", pid + ".json"), "w").write(txt)
    detected = [x["check"] for x in res if x["exit"] == 1 and x["violation_lines"]]
    mp = os.path.join(d, "meta.json")
    meta = json.load(open(mp))
    meta["detected_by"] = detected
    meta["detection_runs"] = res
    json.dump(meta, open(mp, "w"), indent=1)
    rows.append((sid, "DETECTED" if detected else "MISSED", res))
    print(sid, "DETECTED" if detected else "MISSED", [(x["check"], x["exit"], x["secs"]) for x in res], flush=True)
# results table
allmeta = []
for sid in sorted(os.listdir(os.path.join(V, "seeded"))):
    mp = os.path.join(V, "seeded", sid, "meta.json")
    if os.path.exists(mp):
        allmeta.append(json.load(open(mp)))
with open(os.path.join(V, "seeded", "RESULTS.md"), "w") as f:
    f.write("# Seeded changes: which check catches which\n\n| seed | property | change | needs | detected by |\n|---|---|---|---|---|\n")
    for m in allmeta:
        det = m.get("detected_by")
        f.write("| %s | %s | %s | %s | %s |\n" % (m["id"], m["property"], m["change"], m["needs_to_manifest"],
                                                  "; ".join(det) if det else ("**missed**" if det == [] else "not run")))
